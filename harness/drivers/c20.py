"""C20 - the drawable edge set behaves as a set under any add/remove history.
Spec: spec/DrawSet.tla (MC), DrawSetCases.tla (CASES), DrawSetTrace.tla (JUDGE)."""
import random as _r

from .. import tlc
from ..core import watchdog, Timeout
from ..oracle import Oracle, OracleMismatch

# "any element universe": both orientations of a pair are different elements, and tuples need not be mutually orderable
UNIVERSE = [(0, 1), (1, 0), (1, 2), (2, 3), (3, 2), (1, 4), (0, 5), (5, "x"), ("x", 6), (4, 7), (6, None), (7, 3)]
UNIVERSE += [(100 + i, 101 + i) for i in range(450)]       # large sets: positions beyond CPython's small-int cache (> 256)
ENC = {e: i + 1 for i, e in enumerate(UNIVERSE)}


class _Enc:
    """universe index of an element; 0 for anything else (including objects that cannot be hashed)"""
    def get(self, e, d=0):
        try:
            return ENC.get(e, d)
        except TypeError:
            return d


def _project(ds, usize):
    enc = _Enc()
    ev = {"iter": [], "len": -1, "contains": [], "iter_outer": [], "inner_full": True, "obs_raised": ""}
    try:
        it = [enc.get(e, 0) for e in list(ds)]
        # two iterations of the same object that overlap in time (as in `for a in ds: for b in ds:`): each is a full iteration
        outer, inner_full = [], True
        for n_, a in enumerate(ds):
            outer.append(enc.get(a, 0))
            if n_ < 3 or len(it) <= 40:
                inner_full = inner_full and [enc.get(b, 0) for b in ds] == it
        ev.update({"iter": it, "len": len(ds), "contains": [i + 1 for i in range(usize) if UNIVERSE[i] in ds],
                   "iter_outer": outer, "inner_full": bool(inner_full)})
    except Exception as ex:       # len / iteration / membership never raise on a set
        ev["obs_raised"] = type(ex).__name__
    pe, ph = getattr(ds, "_edges", None), getattr(ds, "_edge_hashmap", None)
    if isinstance(pe, list) and isinstance(ph, dict):
        ev["priv"] = True
        ev["pedges"] = [enc.get(e, 0) for e in pe]
        ev["phmap"] = [[enc.get(e, 0), (p + 1) if isinstance(p, int) else -1] for e, p in ph.items()]
    else:
        ev["priv"] = False
        ev["pedges"], ev["phmap"] = [], []
    return ev


def execute(case):
    """case: {kind, usize, ops:[{op,arg}]} ; args are 1-based universe indices; draw arg = directed choice or -1"""
    from gcmpy.tools.draw_set import DrawSet
    ds = DrawSet()
    usize = case["usize"]
    events = []
    rng = _r.Random(case.get("seed", 0))
    for o in case["ops"]:
        op, arg = o["op"], o["arg"]
        ev = {"op": op, "arg": arg, "raised": "", "res": 0, "choice": -1, "results": [], "arity": [], "pm": []}
        try:
            if op == "add":
                ds.add(UNIVERSE[arg - 1])
            elif op == "remove":
                ds.remove(UNIVERSE[arg - 1])
            elif op == "addbad":
                # a tuple that cannot be hashed: a plain set raises TypeError and stays as it was (DrawSet!AddUnhashable)
                ds.add((UNIVERSE[arg - 1][0], [arg]))
                ev["accepted"] = True
            elif op == "draw":
                orc = Oracle()
                if arg >= 0:
                    try:
                        res = orc.run_directed([arg], ds.draw)
                        if len(orc.trail) == 1:
                            ev["choice"] = arg
                    except OracleMismatch:
                        res = orc.run_seeded(rng.randrange(1 << 30), ds.draw)
                else:
                    res = orc.run_seeded(rng.randrange(1 << 30), ds.draw)
                ev["res"] = _Enc().get(res, 0)
            elif op == "drawall":
                # the whole decision tree of one draw(): exact probability of every result.  How many draws the implementation
                # uses, and of which arity, is its own business; a tree that does not end (rejection sampling) is not decided
                orc = Oracle()
                orc.max_draws = 64
                try:
                    from fractions import Fraction
                    tot, last = {}, None
                    for res, trail, w in orc.enumerate(ds.draw, max_leaves=4 * len(ds) + 16):
                        ev["results"].append(_Enc().get(res, 0))
                        ev["arity"].append(trail[0][1] if trail else 0)
                        tot[_Enc().get(res, 0)] = tot.get(_Enc().get(res, 0), Fraction(0)) + w
                        last = trail
                    if last is not None and Oracle.next_prefix(last) is not None:
                        raise OracleMismatch("the decision tree of draw() has more than %d leaves" % (4 * len(ds) + 16))
                    ev["pm"] = [[k, int(v.numerator), int(v.denominator)] for k, v in sorted(tot.items())]
                except OracleMismatch:
                    # draw() uses random(): no exact law, but on a fine aligned grid (8 cells per member) every member of a
                    # uniform draw owns at least 7 midpoints, so "returns a member" and "every member can be drawn" stay decidable
                    ev["results"], ev["arity"], ev["pm"] = [], [], []
                    try:
                        orc2 = Oracle()
                        orc2.max_draws = 64
                        for res, trail, w in orc2.enumerate(ds.draw, grid=8 * max(1, len(ds)), max_leaves=8 * len(ds) + 16):
                            ev["results"].append(_Enc().get(res, 0))
                            last = trail
                        if ev["results"] and Oracle.next_prefix(last) is not None:
                            raise OracleMismatch("too many leaves")
                        ev["op"] = "drawsupport"
                    except (OracleMismatch, IndexError, KeyError):
                        ev["op"] = "observe"   # randomness not enumerable: clause not decided
                        ev["undecided"] = True
                        ev["results"], ev["arity"] = [], []
                except (IndexError, KeyError):
                    pass                   # drawall on an empty set: no leaves
            elif op == "observe":
                pass
        except Exception as ex:  # logged on the error path too
            ev["raised"] = type(ex).__name__
        ev.update(_project(ds, usize))
        if ev.pop("accepted", False):
            break          # the structure took an unhashable tuple without raising: outside what the set model describes, not judged further
        events.append(ev)
    return {"case": case, "events": events}


def _random_case(rng, n_ops, usize, kind="random"):
    ops = []
    present = set()
    for _ in range(n_ops):
        x = rng.random()
        if ops and ops[-1]["op"] in ("addbad", "remove") and rng.random() < 0.35:
            ops.append({"op": "drawall", "arg": 0})      # can every member still be drawn right after a (possibly refused) call?
        if x < 0.03:
            ops.append({"op": "addbad", "arg": rng.randrange(usize) + 1})
        elif x < 0.35:
            a = rng.randrange(usize) + 1
            ops.append({"op": "add", "arg": a}); present.add(a)
        elif x < 0.65:
            # bias toward present elements, sometimes the last inserted, sometimes absent
            if present and rng.random() < 0.8:
                a = rng.choice(sorted(present))
            else:
                a = rng.randrange(usize) + 1
            ops.append({"op": "remove", "arg": a}); present.discard(a)
        elif x < 0.8:
            ops.append({"op": "draw", "arg": -1})
        elif x < 0.9:
            ops.append({"op": "drawall", "arg": 0})
        else:
            ops.append({"op": "observe", "arg": 0})
    return {"kind": kind, "usize": usize, "ops": ops, "seed": rng.randrange(1 << 30)}


def _judge(chk, traces, label):
    def key(tr, v):
        return "history-" + "".join(o["op"][0] + str(o["arg"]) for o in tr["case"]["ops"][:12])
    return chk.judge("DrawSetTrace", "DrawSetTrace.cfg", traces, label=label, key_fn=key)


def apalache_inductive(chk):
    """optional stretch (DESIGN.md C20): the representation invariant is inductive (unbounded histories), by Apalache"""
    import os, shutil, subprocess, time
    exe = shutil.which("apalache-mc")
    d = os.path.join(tlc.SPEC_DIR, "apalache")
    if not exe or not os.path.exists(os.path.join(d, "DrawSetInd.tla")):
        chk.extra["apalache_inductive_invariant"] = "not run (apalache-mc not available)"
        return
    res = {}
    for name, args in (("step", ["--init=IndInit", "--inv=IndInv", "--length=1"]), ("base", ["--init=Init", "--inv=IndInv", "--length=0"])):
        t0 = time.time()
        try:
            p = subprocess.run([exe, "check"] + args + ["--out-dir=" + os.path.join(chk.scratch, "apa"), "DrawSetInd.tla"], cwd=d,
                               stdout=subprocess.PIPE, stderr=subprocess.STDOUT, text=True, timeout=240)
            ok = "The outcome is: NoError" in p.stdout
            res[name] = "NoError" if ok else "NOT PROVED (rc=%s)" % p.returncode
        except subprocess.TimeoutExpired:
            res[name] = "timeout"
        res[name + "_s"] = round(time.time() - t0, 1)
    chk.extra["apalache_inductive_invariant"] = res
    chk.log("Apalache inductive invariant of the DrawSet model:", res)
    if any(str(v).startswith("NOT PROVED") for v in res.values()):
        raise tlc.MachineryError("Apalache refuted the inductive invariant of the DrawSet MODEL: %r" % res)


def run(chk):
    thorough = chk.tier == "thorough"
    apalache_inductive(chk)
    # ---- MC: all histories (the model is finite: no depth bound needed)
    chk.mc("DrawSet", "MC_DrawSet.cfg", required=["Add", "Remove", "RemoveAbsent", "AddUnhashable", "DrawAny", "Observe"])
    if thorough:
        chk.mc("DrawSet", "MC_DrawSet_big.cfg", required=["Add", "Remove", "RemoveAbsent", "AddUnhashable", "DrawAny", "Observe"])
    chk.mc("DrawSet", "MC_DrawSet_deviant.cfg", expect_violation="C20_Representation")
    # ---- CASES: spec behaviours replayed into the real class
    depth = 5 if thorough else 4
    r = tlc.run("DrawSetCases", "DrawSetCases.cfg", workers=16, env={"CASE_DEPTH": depth})
    chk.states += r.distinct; chk.transitions += r.generated
    cases = [{"kind": "tlc-exhaustive", "usize": 3, "ops": c} for c in r.cases]
    chk.exhaustive["all model behaviours of depth %d over 3 elements replayed" % depth] = True
    r2 = tlc.run("DrawSetCases", "DrawSetCasesSim.cfg", workers=1, env={"CASE_DEPTH": 40},
                 simulate="num=%d" % (2000 if thorough else 300), depth=41, seed=chk.seed % (1 << 31))
    chk.states += r2.distinct; chk.transitions += r2.generated
    cases += [{"kind": "tlc-simulate", "usize": 8, "ops": c} for c in r2.cases]
    # dedupe
    seen, uniq = set(), []
    for c in cases:
        k = (c["usize"], tuple((o["op"], o["arg"]) for o in c["ops"]))
        if k not in seen:
            seen.add(k); uniq.append(c)
    traces = [execute(c) for c in uniq]
    chk.add_sample({"kind": "spec->code", "case": uniq[0], "first_events": traces[0]["events"][:3]})
    _judge(chk, traces, "spec->code")
    # ---- code -> spec: random histories incl. drawall under the enumerating oracle
    rng = _r.Random(chk.seed)
    n = 6000 if thorough else 1200
    rcases = []
    for i in range(n):
        usize = rng.choice([1, 2, 3, 5, 8, 12])
        rcases.append(_random_case(rng, rng.randrange(1, 61), usize))
    # corner histories named in the property: remove last inserted, down to empty, re-insert
    rcases.append({"kind": "corner", "usize": 3, "seed": 1, "ops": [
        {"op": "add", "arg": 1}, {"op": "add", "arg": 2}, {"op": "remove", "arg": 2}, {"op": "drawall", "arg": 0},
        {"op": "remove", "arg": 1}, {"op": "drawall", "arg": 0}, {"op": "draw", "arg": -1}, {"op": "remove", "arg": 1},
        {"op": "add", "arg": 1}, {"op": "add", "arg": 1}, {"op": "drawall", "arg": 0}, {"op": "observe", "arg": 0}]})
    # large sets (more than 257 members): grow, remove in last-in-first-out order down to empty, refill, remove first-in-first-out
    for big in ((300, "lifo"), (280, "fifo")) if not thorough else ((300, "lifo"), (280, "fifo"), (400, "lifo"), (350, "mixed")):
        n, order = big
        ops = [{"op": "add", "arg": 13 + i} for i in range(n)]
        ids = list(range(n))
        if order == "lifo":
            ids = ids[::-1]
        elif order == "mixed":
            rng.shuffle(ids)
        ops += [{"op": "remove", "arg": 13 + i} for i in ids[:n - 3]] + [{"op": "observe", "arg": 0}, {"op": "draw", "arg": -1}]
        ops += [{"op": "add", "arg": 13 + i} for i in range(5)] + [{"op": "remove", "arg": 13 + n + 5}, {"op": "observe", "arg": 0}]
        rcases.append({"kind": "large-" + order, "usize": 12 + n + 10, "ops": ops, "seed": 3})
    rtraces = [execute(c) for c in rcases]
    leaves = sum(len(e["results"]) for t in rtraces for e in t["events"])
    chk.rng_leaves += leaves
    und = sum(1 for t in rtraces for e in t["events"] if e.get("undecided"))
    if und:
        chk.not_decided.append("every-member-drawable/uniform draw: oracle could not enumerate draw() (%d times)" % und)
    chk.add_sample({"kind": "code->spec", "case": rcases[-1], "events": rtraces[-1]["events"][:4]})
    _judge(chk, rtraces, "code->spec")
    chk.nontrivial = len({tuple((o["op"], o["arg"]) for o in t["case"]["ops"]) for t in traces + rtraces
                          if any(o["op"] == "remove" for o in t["case"]["ops"])})
    chk.extra["rule"] = ("histories = op sequences over add/remove/draw/drawall/observe; non-trivial = contains at "
                         "least one remove; distinct by op sequence")
    chk.assumptions += ["elements are hashable tuples with value equality (as the rewiring uses them)",
                        "draw() randomness reaches the generator via random._inst._randbelow (oracle attachment)"]


def replay(chk, data):
    tr = execute(data["trace"]["case"])
    _judge(chk, [tr], "replay")
