"""Shared driver for C01 / C02 / C03: runs the three generators (direct and through
GCMAlgorithmMain) with recording build/naming callbacks and records what they did."""
import copy
import itertools
import random as _r
from fractions import Fraction

from ..core import watchdog, Timeout
from ..oracle import Oracle, OracleMismatch


class _InjectedFault(Exception):
    pass


def _isint(x):
    """an integer of any kind (Python or numpy), but not a bool"""
    import numbers
    return isinstance(x, numbers.Integral) and not isinstance(x, bool)


# ---- motif shapes as position pairs (0-based positions into the vertex list) -------------
def _clique(n):
    return [(a, b) for a, b in itertools.combinations(range(n), 2)]


def _cycle(n):
    return [(i, i + 1) for i in range(n - 1)] + [(0, n - 1)]


SHAPES = {
    "edge": (2, [(0, 1)]),
    "tri": (3, _clique(3)),
    "k4": (4, _clique(4)),
    "path3": (3, [(0, 1), (1, 2)]),           # exactly two edges
    "cyc4": (4, _cycle(4)),
    "cyc5": (5, _cycle(5)),
    "diamond": (4, _cycle(4) + [(0, 2), (1, 3)]),
    "single": (1, []),
    "hub2": (3, [(0, 1), (0, 2)]),            # positions 0 | 1,2 : two orbits (sizes 1,2)
    "pent": (5, [(0, 1), (1, 2), (2, 3), (3, 4), (0, 4), (1, 3)]),  # three orbits 2,2,1 as in the repo test
}


def lib_callback(shape):
    """gcmpy's own motif generators where they exist (the anchors of C01 name them)"""
    import gcmpy
    return {"tri": gcmpy.clique_motif, "k4": gcmpy.clique_motif, "edge": gcmpy.clique_motif,
            "cyc4": gcmpy.cycle_motif, "cyc5": gcmpy.cycle_motif, "diamond": gcmpy.diamond_motif}.get(shape)


# A configuration: sizes per joint-degree column; motifs = list of (orbit columns, shape, bare)
CONFIGS = {
    # --- mirrored one-to-one in spec/MC_StubMatching.tla (FastConfigs / CustomConfigs)
    "f_edge": dict(custom=False, sizes=[2], motifs=[([0], "edge", False)]),
    "f_tri": dict(custom=False, sizes=[3], motifs=[([0], "tri", False)]),
    "f_edge_tri": dict(custom=False, sizes=[2, 3], motifs=[([0], "edge", False), ([1], "tri", False)]),
    "f_single_path": dict(custom=False, sizes=[1, 3], motifs=[([0], "single", False), ([1], "path3", False)]),
    "c_bare": dict(custom=True, sizes=[2], motifs=[([0], "edge", True)]),
    "c_path": dict(custom=True, sizes=[3], motifs=[([0], "path3", False)]),
    "c_bare_tri": dict(custom=True, sizes=[2, 3], motifs=[([0], "edge", True), ([1], "tri", False)]),
    "c_hub": dict(custom=True, sizes=[1, 2], motifs=[([0, 1], "hub2", False)]),
    "c_hub_tri": dict(custom=True, sizes=[1, 2, 3], motifs=[([0, 1], "hub2", False), ([2], "tri", False)]),
    # --- larger configurations for seeded runs
    "f_mix4": dict(custom=False, sizes=[2, 3, 4, 4], motifs=[([0], "edge", False), ([1], "tri", False),
                                                                ([2], "diamond", False), ([3], "cyc4", False)]),
    "f_k4_cyc5": dict(custom=False, sizes=[4, 5], motifs=[([0], "k4", False), ([1], "cyc5", False)]),
    "c_repo": dict(custom=True, sizes=[2, 3, 2, 2, 2, 2, 1],
                   motifs=[([0], "edge", True), ([1], "tri", False), ([2, 3], "diamond", False),
                           ([4, 5, 6], "pent", False)]),
    "c_two_two_edge": dict(custom=True, sizes=[3, 2, 1], motifs=[([0], "path3", False), ([1, 2], "hub2x", False)]),
}
SHAPES["hub2x"] = (3, [(2, 0), (2, 1)])  # orbits (2 leaves | 1 hub): exactly two edges, two orbits
MC_MIRROR = ["f_edge", "f_tri", "f_edge_tri", "f_single_path", "c_bare", "c_path", "c_bare_tri", "c_hub", "c_hub_tri"]


def consistent_family(cfgname, N, maxdeg, stubcap):
    """the MC family: jds in [N x K -> 0..maxdeg] with Consistent /\\ OrbitsAgree (see StubMatching.tla)"""
    cfg = get_cfg(cfgname)
    K = len(cfg["sizes"])
    out = []
    for flat in itertools.product(range(maxdeg + 1), repeat=N * K):
        jds = [tuple(flat[v * K:(v + 1) * K]) for v in range(N)]
        cs = [sum(j[k] for j in jds) for k in range(K)]
        if any(cs[k] % cfg["sizes"][k] or cs[k] > stubcap for k in range(K)):
            continue
        ok = True
        for orbits, _s, _b in cfg["motifs"]:
            cnt = {cs[k] // cfg["sizes"][k] for k in orbits}
            if len(cnt) > 1:
                ok = False
        if ok:
            out.append(jds)
    return out


def random_jds(rng, cfgname, N, maxdeg, zero_frac=0.3):
    """handshake-consistent random sequence: draw, then fix column sums by adding stubs"""
    cfg = get_cfg(cfgname)
    K = len(cfg["sizes"])
    jds = [[0 if rng.random() < zero_frac else rng.randrange(maxdeg + 1) for _ in range(K)] for _ in range(N)]
    for orbits, _s, _b in cfg["motifs"]:
        # number of motifs of this type: round every orbit column to the same count
        want = max((sum(j[k] for j in jds) + cfg["sizes"][k] - 1) // cfg["sizes"][k] for k in orbits)
        for k in orbits:
            need = want * cfg["sizes"][k] - sum(j[k] for j in jds)
            for _ in range(need):
                jds[rng.randrange(N)][k] += 1
    return [tuple(j) for j in jds]


def _norm_edges(ret):
    """log what a callback returned as a list of [a,b] (a bare edge becomes one entry)"""
    if isinstance(ret, (tuple, list)) and len(ret) == 2 and not isinstance(ret[0], (tuple, list)):
        return [[int(ret[0]), int(ret[1])]]
    return [[int(e[0]), int(e[1])] for e in ret]


def get_cfg(c):
    return CONFIGS[c] if isinstance(c, str) else c


def get_shape(shape):
    """a shape is a name in SHAPES or an inline list of position pairs"""
    if isinstance(shape, str):
        return SHAPES[shape]
    pairs = [tuple(p) for p in shape]
    return (1 + max([max(p) for p in pairs] or [0]), pairs)


def random_config(rng, custom):
    """a random motif configuration: 1..4 motifs, custom ones with 1..3 orbits of sizes 1..3, random shapes"""
    sizes, motifs = [], []
    for _ in range(rng.randrange(1, 5)):
        norb = rng.randrange(1, 4) if custom else 1
        orbits = []
        for _o in range(norb):
            orbits.append(len(sizes))
            sizes.append(rng.randrange(1, 4) if (custom and norb > 1) else rng.randrange(2, 5))
        nv = sum(sizes[k] for k in orbits)
        allp = [(a, b) for a in range(nv) for b in range(a + 1, nv)]
        ne = rng.choice([1, 2, 2, 3, len(allp)]) if allp else 0
        pairs = rng.sample(allp, min(ne, len(allp)))
        bare = bool(custom and len(pairs) == 1 and rng.random() < 0.7)
        motifs.append((orbits, [list(p) for p in pairs], bare))
    if custom:
        order = list(range(len(motifs)))      # motif order need not follow column order
        rng.shuffle(order)
        motifs = [motifs[i] for i in order]
        if rng.random() < 0.6:
            # nor need a motif's orbit columns be contiguous or ascending: permute the joint-degree columns
            perm = list(range(len(sizes)))
            rng.shuffle(perm)                 # old column c becomes column perm[c]
            new_sizes = [0] * len(sizes)
            for c, s_ in enumerate(sizes):
                new_sizes[perm[c]] = s_
            sizes = new_sizes
            motifs = [([perm[c] for c in orbits], pairs, bare) for orbits, pairs, bare in motifs]
    return dict(custom=custom, sizes=sizes, motifs=motifs)


def _execute(case):
    """case: gen in fast|network|motifs, via in direct|main, cfg name, jds, rng: ('seed', s) | ('plan', [...])"""
    import gcmpy
    from gcmpy import GCMAlgorithmNames as GN
    cfg = get_cfg(case["cfg"])
    if case.get("as_custom"):
        cfg = dict(cfg, custom=True)
    gen, via = case["gen"], case["via"]
    jds_in = [tuple(j) for j in case["jds"]]
    jds_arg = [tuple(j) for j in jds_in]
    N = len(jds_in)
    calls = []
    style = case.get("style", 0)      # container types the user callbacks return
    if case["gen"] == "network":
        style = style % 2             # the network conversion keys dictionaries by edge: inner pairs must be hashable tuples
    builds, names, motifs_rec = [], [], []
    fault = {"at": None, "n": 0, "what": "build"}      # crash point: the k-th callback of the PRIOR call raises (Abort in StubMatching.tla)
    for j, (orbits, shape, bare) in enumerate(cfg["motifs"]):
        size, pairs = get_shape(shape)
        lib = lib_callback(shape) if isinstance(shape, str) and (not cfg["custom"] or not bare) and not case.get("simple_builder") else None

        def build(vs, j=j, pairs=pairs, bare=bare, lib=lib, style=style):
            handed = vs
            vs = list(vs)
            if fault["at"] is not None and fault["what"] == "build":
                fault["n"] += 1
                if fault["n"] >= fault["at"]:
                    fault["at"] = None
                    raise _InjectedFault("build callback raised (injected crash point)")
            if lib is not None:
                ret = lib(list(vs))
            elif bare and case.get("bare_alias") and isinstance(handed, list) and len(handed) == 2:
                ret = handed                  # the bare edge IS the vertex list the callback was handed (`def edge(vs): return vs`)
            elif bare:
                ret = (vs[0], vs[1])
            else:
                # user callbacks may return tuples or lists of tuples or lists: all are "edges as pairs"
                inner = list if style in (2, 3) else tuple
                outer = list if style in (1, 3) or not cfg["custom"] else tuple
                prs = [(vs[a], vs[b]) for a, b in pairs]
                if case.get("simple_builder"):
                    # a 'simple graph' builder: drops self-loops and repeated pairs, so the number of edges returned
                    # varies from one motif instance to the next
                    seen_, out_ = set(), []
                    for x, y in prs:
                        if x != y and frozenset((x, y)) not in seen_:
                            seen_.add(frozenset((x, y))); out_.append((x, y))
                    prs = out_
                ret = outer(inner(p_) for p_ in prs)
            calls.append({"m": j + 1, "verts": [int(v) for v in vs], "ret": _norm_edges(ret)})
            return ret
        builds.append(build)
        if cfg["custom"]:
            per_edge = ["m%de%d" % (j, i) for i in range(len(pairs))]
            if bare:
                per_edge = [["K2", "x", "m%de0" % j][(j + case.get("name_style", 0)) % 3]]      # names of 2, 1 and 4 characters
            nstyle = case.get("name_style", 0)      # container the naming callback uses
            if bare and nstyle % 3 == 0:
                names.append(lambda per_edge=per_edge: per_edge[0])            # a bare name for a bare edge
            elif nstyle % 3 == 1:
                names.append(lambda per_edge=per_edge: tuple(per_edge))        # (also a one-element tuple for a bare edge)
            else:
                names.append(lambda per_edge=per_edge: list(per_edge))
            motifs_rec.append({"orbits": [k + 1 for k in orbits], "names": per_edge or ["-"], "homog": False,
                               "check_shape": lib is not None, "shape": [[a + 1, b + 1] for a, b in pairs]})
        else:
            nm = "top%d-%s" % (j, shape if isinstance(shape, str) else "inline")
            if case.get("same_names"):
                nm = "clique"          # several topologies may carry the same label (the configuration is positional)
            names.append(nm)
            motifs_rec.append({"orbits": [k + 1 for k in orbits], "names": [nm], "homog": True,
                               "check_shape": lib is not None, "shape": [[a + 1, b + 1] for a, b in pairs]})
    params = {GN.MOTIF_SIZES: list(cfg["sizes"]), GN.BUILD_FUNCTIONS: builds, GN.EDGE_NAMES: names}
    if gen == "motifs":
        params[GN.MOTIF_INDICES] = [list(o) for o, _s, _b in cfg["motifs"]]
    rec = {"case": case, "N": N, "jds": [list(j) for j in jds_in], "sizes": list(cfg["sizes"]),
           "motifs": motifs_rec, "custom": cfg["custom"], "calls": calls, "raised": "",
           "has_cols": False, "edge": [], "pair_ok": [], "top": [], "mid": [],
           "has_net": False, "net_nodes": [], "net_jd": [], "net_edges": [], "net_attr": [],
           "jds_out": [], "jds_ok": True, "jds_in_after": []}

    def make():
        if via == "main":
            p = dict(params)
            p[GN.GCM_TYPE] = gen
            alg = gcmpy.GCMAlgorithmMain.load_gcm_algorithm(p)
        else:
            p = params
            cls = {"fast": gcmpy.GCMAlgorithmFast, "network": gcmpy.GCMAlgorithmNetwork,
                   "motifs": gcmpy.GCMAlgorithmCustomMotifs}[gen]
            alg = cls(p)
        if case.get("dict_reuse"):
            # the caller re-uses the SAME parameter dictionary for another generator afterwards (as the library's own tests do):
            # a generator is configured by what the dictionary held when it was built
            p[GN.MOTIF_SIZES] = [s_ + 1 for s_ in p[GN.MOTIF_SIZES]]
            p[GN.BUILD_FUNCTIONS] = [(lambda vs: [(vs[0], vs[-1])]) for _ in p[GN.BUILD_FUNCTIONS]]
            p[GN.EDGE_NAMES] = ["other-%d" % i_ for i_ in range(len(p[GN.EDGE_NAMES]))]
            try:
                (gcmpy.GCMAlgorithmMain.load_gcm_algorithm(p) if via == "main" else cls(p))
            except Exception:
                pass
        return alg
    holder = {}
    if case.get("pre_jds"):
        # history: the SAME generator object already produced a graph (for the same or another sequence) before the judged call;
        # with pre_fault = k that earlier call was ABORTED by its k-th build callback raising, and the caller kept the object
        try:
            holder["alg"] = make()
            pre_list = [tuple(j) for j in case["pre_jds"]]
            fault.update({"at": case.get("pre_fault"), "n": 0})
            try:
                Oracle().run_seeded(case.get("pre_seed", 7), lambda: holder["alg"].random_clustered_graph(pre_list))
            except _InjectedFault:
                rec["pre_aborted"] = True
            if case.get("pre_same_list"):
                # the caller edits the very same list object in place between the two calls
                pre_list[:] = jds_arg
                jds_arg = pre_list
        except Exception:
            holder.pop("alg", None)
        fault["at"] = None
        del calls[:]

    def go():
        alg = holder.get("alg") or make()
        return alg.random_clustered_graph(jds_arg)

    orc = Oracle()
    try:
        with watchdog(20):
            if case["rng"][0] == "none":
                res = go()                         # no oracle: whatever randomness the code uses runs freely
            elif case["rng"][0] == "seed":
                res = orc.run_seeded(case["rng"][1], go)
            elif case["rng"][0] == "open":
                res = orc.run_open(case["rng"][1], go)
            else:
                res = orc.run_directed(case["rng"][1], go)
    except (OracleMismatch, Timeout):
        raise
    except Exception as ex:
        rec["raised"] = "%s: %s" % (type(ex).__name__, str(ex)[:80])
        res = None
    rec["trail_len"] = len(orc.trail)
    rec["trail"] = [list(t) for t in orc.trail] if case["rng"][0] != "seed" else []
    rec["jds_in_after"] = [[int(x) for x in j] for j in jds_arg]
    rec["held_before"], rec["held_after"] = [], []
    if res is not None:
        if "res" in _HELD:
            rec["held_before"], rec["held_after"] = _HELD["digest"], _digest(_HELD["res"])
        _HELD.update({"res": res, "digest": _digest(res)})
        _project(rec, res, N)
    return rec


_HELD = {}      # the previous result object, kept alive: producing another graph must not change an earlier result
from ..history import with_prior
execute = with_prior(_execute, _HELD, lambda rec: rec["held_before"] != rec["held_after"])


def _digest(res):
    """compact fingerprint of a returned edge list / network (list of ints) for the 'earlier result unchanged' clause"""
    try:
        if hasattr(res, "edge_list"):
            es = list(res.edge_list)
            return [len(es), sum(hash((int(e[0]), int(e[1]))) % 9973 for e in es if isinstance(e, (tuple, list)) and len(e) == 2),
                    len(res.topologies), sum(hash(str(t)) % 9973 for t in res.topologies), len(res.motif_id),
                    sum(int(m) % 9973 for m in res.motif_id if _isint(m)), sum(sum(int(x) for x in j) for j in res.joint_degrees)]
        G = res.G if hasattr(res, "G") else res
        return [G.number_of_nodes(), G.number_of_edges(), sum(hash((min(a, b), max(a, b))) % 9973 for a, b in G.edges()),
                sum(hash(str(sorted(d.items(), key=str))) % 9973 for _a, _b, d in G.edges(data=True))]
    except Exception:
        return [-1]


def _project(rec, res, N):
    import networkx as nx
    from gcmpy import NetworkNames as NN
    if hasattr(res, "edge_list"):
        rec["has_cols"] = True
        for e in res.edge_list:
            ok = isinstance(e, (tuple, list)) and len(e) == 2 and all(_isint(x) for x in e)
            rec["pair_ok"].append(bool(ok))
            rec["edge"].append([int(e[0]), int(e[1])] if ok else [-1, -1])
        rec["top"] = [t if isinstance(t, str) else repr(t) for t in res.topologies]
        rec["mid"] = [int(m) if _isint(m) else -1 for m in res.motif_id]
        try:
            rec["jds_out"] = [[int(x) for x in j] for j in res.joint_degrees]
            rec["jds_ok"] = all(isinstance(j, tuple) for j in res.joint_degrees)
        except Exception:
            rec["jds_ok"] = False
    else:
        G = res.G if hasattr(res, "G") else res
        rec["has_net"] = True
        rec["net_nodes"] = [int(n) if _isint(n) else -1 for n in G.nodes()]
        jd = nx.get_node_attributes(G, NN.JOINT_DEGREE)
        rec["net_jd"] = [[int(x) for x in jd[n]] if n in jd else [-1] for n in G.nodes()]
        rec["net_edges"] = [[int(a), int(b)] for a, b in G.edges()]
        rec["jds_out"] = [[int(x) for x in jd[n]] if n in jd else [-1] for n in sorted(G.nodes())]
        rec["jds_ok"] = len(jd) == G.number_of_nodes()
        rec["net_attr"] = [[str(G.edges[e].get(NN.TOPOLOGY, "?")), int(G.edges[e].get(NN.MOTIF_IDS, -1))] for e in G.edges()]


def arrangement(rec):
    """reconstruct, per joint-degree column, the order in which the generator consumed its stubs"""
    cfg = get_cfg(rec["case"]["cfg"])
    K = len(cfg["sizes"])
    arr = [[] for _ in range(K)]
    for j, (orbits, _shape, _b) in enumerate(cfg["motifs"]):
        cs = [c for c in rec["calls"] if c["m"] == j + 1]
        if cfg["custom"]:
            cs = list(reversed(cs))      # partitions are popped from the end
        for c in cs:
            off = 0
            for k in orbits:
                arr[k].extend(c["verts"][off:off + cfg["sizes"][k]])
                off += cfg["sizes"][k]
    return arr


def enumerate_leaves(base_case, max_leaves=None):
    """every leaf of the generator's RNG decision tree: yields (record, exact weight)"""
    prefix, n = [], 0
    while prefix is not None:
        rec = execute(dict(base_case, rng=("open", prefix)))
        trail = rec["trail"]
        rec["case"] = dict(base_case, rng=("plan", [t[2] for t in trail]))
        yield rec, Oracle.weight(trail)
        n += 1
        if max_leaves and n >= max_leaves:
            return
        prefix = Oracle.next_prefix(trail)
