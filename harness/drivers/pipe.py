"""PIPE - not a listed property: the composition sample -> generate -> convert -> read back (spec/Pipeline.tla).
Run with ./check PIPE; part of the growth of the specification beyond the listed properties (DESIGN.md 9)."""
import random as _r

from ..exact import decode
from ..oracle import Oracle


def execute(case):
    import gcmpy
    from gcmpy import JointDegreeNames as JN, GCMAlgorithmNames as GN, NetworkNames as NN
    sizes = case["sizes"]
    K = len(sizes)
    tr = {"case": case, "sizes": sizes, "jds": [], "motifs": [], "nodes": [], "node_jd": [], "edges": [], "hist": [], "raised": ""}
    try:
        jdd = {tuple(k): w for k, w in case["jdd"]}
        loader = gcmpy.JointDegreeManual({JN.JDD: jdd, JN.MOTIF_SIZES: sizes})
        motifs = []
        builds = []
        for k in range(K):
            def b(vs, k=k):
                motifs.append({"top": k + 1, "verts": [int(v) for v in vs]})
                return gcmpy.clique_motif(vs)
            builds.append(b)

        def go():
            jds = loader.sample_jds_from_jdd(case["N"])
            net = gcmpy.GCMAlgorithmNetwork({GN.MOTIF_SIZES: sizes, GN.BUILD_FUNCTIONS: builds,
                                             GN.EDGE_NAMES: ["t%d" % (k + 1) for k in range(K)]}).random_clustered_graph(jds)
            return jds, net
        jds, net = Oracle().run_seeded(case["seed"], go)
        G = net.G
        tr["jds"] = [[int(x) for x in j] for j in jds]
        tr["motifs"] = motifs
        tr["nodes"] = [int(v) for v in G.nodes()]
        tr["node_jd"] = [[int(x) for x in G.nodes[v][NN.JOINT_DEGREE]] for v in G.nodes()]
        tr["edges"] = [{"a": int(a), "b": int(b), "top": int(str(G.edges[a, b][NN.TOPOLOGY])[1:])} for a, b in G.edges()]
        h = gcmpy.JointDegreeDistributionFromNetwork.get_joint_degree_distribution(G)
        for key, x in h.items():
            n, ok = decode(x, G.order())
            tr["hist"].append({"k": [int(v) for v in key], "n": n, "ok": bool(ok), "D": G.order()})
    except Exception as ex:
        tr["raised"] = "%s: %s" % (type(ex).__name__, str(ex)[:80])
    return tr


def run(chk):
    chk.mc("MC_Pipeline", "MC_Pipeline.cfg", required=["Generate", "Convert", "ReadBack"])
    rng = _r.Random(chk.seed)
    cases = []
    for i in range(1500 if chk.tier == "thorough" else 250):
        K = rng.choice([1, 2, 3])
        sizes = [rng.choice([2, 3, 4]) for _ in range(K)]
        keys = list({tuple(rng.randrange(0, 3) for _ in range(K)) for _ in range(rng.randrange(1, 5))})
        cases.append({"sizes": sizes, "jdd": [[list(k), rng.randrange(1, 4)] for k in keys], "N": rng.choice([3, 6, 12, 30, 80]),
                      "seed": rng.randrange(1 << 30)})
    traces = [execute(c) for c in cases]
    chk.add_sample(traces[0])
    chk.judge("PipelineTrace", "PipelineTrace.cfg", traces, label="pipeline", key_fn=lambda tr, v: v["v"], parallel=6)
    chk.nontrivial = sum(1 for t in traces if t["edges"])
    chk.extra["rule"] = "one case = one run of the whole pipeline; non-trivial = the network has edges"


def replay(chk, data):
    chk.judge("PipelineTrace", "PipelineTrace.cfg", [execute(data["trace"]["case"])], label="replay")
