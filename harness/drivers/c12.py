"""C12 - rewiring only creates pairings the target allows and approaches it (shares C11's driver)."""
import random as _r

from . import c11
from . import rewire as R


def distance_cases(chk):
    rng = _r.Random(chk.seed + 12)
    cs = []
    for i in range(25 if chk.tier == "thorough" else 7):
        es, jd, tops = R.clean_network(rng, 150, [2, 3], 0.9)
        tg = R.make_target(rng, es, jd, tops, "assort")
        for rows in tg:
            for r in rows:
                r["w"] = 20 if r["a"] == r["b"] else 1
        cs.append({"edges": es, "jd": jd, "tops": tops, "target": tg, "limit": 800, "search": -1, "rng": ("seed", rng.randrange(1 << 30)),
                   "watchdog": 120, "wrap": False, "distance": True, "family": "assortative-many-classes"})
    # two topologies whose names are not in alphabetical order (the joint-degree slot of a topology is its position in the name list)
    for i in range(6 if chk.tier == "thorough" else 3):
        es, jd, tops = R.clean_network(rng, 60, [3, 2], 0.9)
        tg = R.make_target(rng, es, jd, tops, "assort")
        for rows in tg:
            for r in rows:
                r["w"] = 20 if r["a"] == r["b"] else 1
        cs.append({"edges": es, "jd": jd, "tops": tops, "target": tg, "limit": 300, "search": -1, "rng": ("seed", rng.randrange(1 << 30)),
                   "watchdog": 40, "wrap": False, "distance": True, "family": "names-not-alphabetical"})
    # two degree classes and a DISASSORTATIVE full-support target: the only useful moves turn an a-a and a b-b edge into two a-b edges
    for i in range(12 if chk.tier == "thorough" else 4):
        es, jd, tops = R.two_class_network(rng)
        ka, kb = sorted({j[0] for j in jd})
        tg = [[{"a": [x - 1], "b": [y - 1], "w": 18 if x != y else 2} for x in (ka, kb) for y in (ka, kb)]]
        cs.append({"edges": es, "jd": jd, "tops": tops, "target": tg, "limit": 400, "search": -1, "rng": ("seed", rng.randrange(1 << 30)),
                   "watchdog": 60, "wrap": False, "distance": True, "labels": ["id", "shift"][i % 2], "family": "two-classes-disassortative"})
    return cs


def run(chk):
    traces, verdicts = c11.run(chk, "C12")
    # (c) end-to-end: a full-support assortative target that differs from the random initial mixing
    dts = [R.execute(c) for c in distance_cases(chk)]
    dts = [t for t in dts if not t["raised"]]          # (a run stopped by the watchdog is judged on the graph it had reached)
    before = len(chk.violations)
    vs = chk.judge("RewiringTrace", "RewiringTrace.cfg", dts, label="C12 distance", env={"PROPERTY": "C12"}, key_fn=R.key_fn,
                   heap="3g", parallel=7)
    bad = [v for v in vs if "distance_to_target_not_smaller" in v["failed"]]
    chk.extra["distance_runs"] = len(dts)
    chk.extra["distance_runs_not_smaller"] = len(bad)
    metro = chk.extra.get("metropolis_mismatches", 0)
    # statistical clause: a single unlucky seed cannot raise an alarm (DESIGN.md C12).  Each family of distance runs (same
    # construction, different seeds) counts on its own: it is reported when the Metropolis rule also disagrees with the model or
    # when the distance fails to drop on a majority of that family's seeds
    fam_of = {i + 1: t["case"].get("family", "?") for i, t in enumerate(dts)}
    fams = {}
    for i, t in enumerate(dts):
        fams.setdefault(fam_of[i + 1], [0, 0])[0] += 1
    for v in bad:
        fams[fam_of[v["tid"]]][1] += 1
    quiet = {f for f, (n_, b_) in fams.items() if b_ and not (metro > 0 or 2 * b_ > n_)}
    if quiet:
        keep = []
        for x in chk.violations[before:]:
            fam = (x.get("trace") or {}).get("case", {}).get("family")
            if "distance_to_target_not_smaller" in x["clause"] and fam in quiet:
                continue
            keep.append(x)
        chk.violations[before:] = keep
        chk.not_decided.append("distance decrease failed on a minority of the seeds of %s (Metropolis rule conforms): statistical, not reported" % sorted(quiet))
    chk.extra["distance_families"] = {f: {"runs": n_, "not_smaller": b_} for f, (n_, b_) in fams.items()}
    chk.assumptions += ["'approaches the target' = (stepwise Metropolis identity recomputed by TLC on every recorded call) + (TLC-checked ratio = stationary-weight ratio on the model) + (seeded distance decrease, majority of seeds; statistical)",
                        "TLC shows the chain is NOT reversible move by move (focal vertex is always the smaller end point), so exact detailed balance is not claimed"]


def replay(chk, data):
    c11.replay(chk, data, "C12")
