"""C13 - mixing matrices extracted from a network are exact, symmetric and repeatable.
Spec: Mixing.tla (extractor as a state machine with its edge counter; accumulate deviation), MixingTrace.tla."""
import json
import os
import random as _r

from .. import tlc
from ..exact import decode
from . import rewire as R


def build_graph(case):
    import networkx as nx
    from gcmpy import NetworkNames as NN
    G = nx.Graph()
    n = len(case["jd"])
    L = R.labels_of(case, n)          # vertex labels 0..N-1, 1000 + 7v or 70000 + v: the matrices do not depend on them
    G.add_nodes_from(L)
    for v in range(n):
        G.nodes[L[v]][NN.JOINT_DEGREE] = list(case["jd"][v]) if case.get("jd_as_list") else tuple(case["jd"][v])
    for a, b, t, m in case["edges"]:
        G.add_edge(L[a], L[b])
        G.edges[L[a], L[b]][NN.TOPOLOGY] = t
        G.edges[L[a], L[b]][NN.MOTIF_IDS] = m
        if case.get("weights"):           # annotated networks may carry further edge attributes; they are not part of the mixing
            G.edges[L[a], L[b]]["weight"] = [0.0, 2.5, 1.0, 7][(a + b + m) % 4]
    return G


def _rows(d, D, T):
    rows = []
    for key, x in d.items():
        key = [int(v) for v in key]
        n, ok = decode(x, D)
        rows.append({"a": key[:T], "b": key[T:], "n": n, "ok": bool(ok), "D": D})
    return sorted(rows, key=lambda r: (r["a"], r["b"]))


def execute(case):
    import gcmpy
    from gcmpy import ToolsNames as TN
    G = build_graph(case)
    tops = list(case["tops"])
    T = len(tops)
    tr = {"kind": "c13", "case": case, "V": list(range(len(case["jd"]))), "jd": [list(j) for j in case["jd"]], "tops": tops,
          "target": [[] for _ in tops], "g0": sorted([a, b, t, m] for a, b, t, m in case["edges"]), "calls": [], "overall": [], "raised": "", "first_again": [], "first_keys_again": []}
    E = {t: sum(1 for e in case["edges"] if e[2] == t) for t in tops}
    try:
        ex = gcmpy.JointExcessJointDegree({TN.NETWORK: G, TN.EDGE_NAMES: tops})
        if case.get("pre_abort") is not None:
            # crash point: an earlier extraction on this extractor was abandoned part-way (Mixing!AbortExtraction); the caller kept it
            from ..crash import abort_frac
            tr["pre_abort_outcome"] = abort_frac(lambda: gcmpy.JointExcessJointDegree({TN.NETWORK: build_graph(case), TN.EDGE_NAMES: tops}).get_ejks(),
                                                 ex.get_ejks, case["pre_abort"])
        held = []
        for c in range(case.get("ncalls", 3)):
            m = ex.get_ejks()
            held.append(m)
            mats = [{"t": str(t), "rows": _rows(d, 2 * E.get(t, 0) or 1, T)} for t, d in m.ejks.items() if d or E.get(t, 0)]
            exk = [{"t": str(t), "keys": sorted([int(x) for x in k] for k in ks)} for t, ks in sorted(m.excess_degree_keys.items())]
            tr["calls"].append({"matrices": sorted(mats, key=lambda x: x["t"]), "exkeys": exk})
        # the object returned by the FIRST extraction, encoded again after the last one: a later call must not change it
        m0 = held[0]
        if case.get("edit_after") and G.number_of_nodes() > 2:
            # ... nor may an extraction made after the caller EDITED the network (a vertex and its edges removed, so that joint
            # degrees disappear): the earlier result is a value of its own, matrices and key lists alike
            try:
                G.remove_node(max(G.nodes()))
                ex.get_ejks()
            except Exception:
                pass
        tr["first_again"] = sorted([{"t": str(t), "rows": _rows(d, 2 * E.get(t, 0) or 1, T)} for t, d in m0.ejks.items() if d or E.get(t, 0)],
                                   key=lambda x: x["t"])
        tr["first_keys_again"] = [{"t": str(t), "keys": sorted([int(x) for x in k] for k in ks)} for t, ks in sorted(m0.excess_degree_keys.items())]
        ov = gcmpy.JointExcessDegree.get_ejk(build_graph(case))
        tr["overall"] = _rows({(j, k): v for (j, k), v in ov.items()}, 2 * len(case["edges"]) or 1, 1)
    except Exception as exn:
        tr["raised"] = "%s: %s" % (type(exn).__name__, str(exn)[:70])
    return tr


def cases(chk):
    thorough = chk.tier == "thorough"
    rng = _r.Random(chk.seed)
    cs = []
    for f in json.load(open(os.path.join(tlc.SPEC_DIR, "rewiring_nets.json"))):      # the MC family
        cs.append({"edges": [tuple(e) for e in f["g0"]], "jd": [tuple(j) for j in f["jd"]], "tops": f["tops"], "ncalls": 3})
    for i in range(2500 if thorough else 90):
        n = rng.choice([4, 6, 9, 14, 25, 40])
        sizes = rng.choice([[2], [2, 3], [2, 3, 4], [3], [2, 2, 3]])
        names = ["2-clique", "2-clique-blue", "3-clique"] if sizes == [2, 2, 3] else None   # two differently named 2-clique topologies
        es, jd, tops = R.clean_network(rng, n, sizes, rng.choice([0.5, 0.9, 1.4]), names=names)
        if not es:
            continue
        if rng.random() < 0.3:      # annotations need not agree with the actual degrees: the law is stated on annotations
            jd = [tuple(max(1, x + rng.choice([0, 0, 1])) for x in j) for j in jd]
        cs.append({"edges": es, "jd": jd, "tops": tops, "ncalls": rng.choice([1, 2, 3, 4]), "labels": rng.choice(["id", "shift", "big"]),
                   "jd_as_list": i % 3 == 1, "weights": i % 4 == 3,
                   "pre_abort": [None, None, rng.random()][i % 3], "edit_after": i % 2 == 0})          # annotations stored as lists (the generators keep whatever sequence they get)
    return cs


def _key(tr, v):
    return "%s/%s" % (tr["kind"], v["v"].split(":", 1)[-1])


def run(chk):
    chk.mc("MC_Mixing", "MC_Mixing.cfg", required=["MNext"])
    chk.mc("MC_Mixing", "MC_Mixing_accumulate.cfg", expect_violation="C13_Exact")
    from .. import crash
    crash.mc(chk)
    traces = [execute(c) for c in cases(chk)]
    chk.add_sample(traces[2]); chk.add_sample(traces[-1])
    chk.judge("MixingTrace", "MixingTrace.cfg", traces, label="C13", key_fn=_key, heap="3g", parallel=8)
    chk.extra["extractions_judged_after_an_abandoned_extraction"] = sum(1 for t in traces if t.get("pre_abort_outcome") == "aborted")
    chk.nontrivial = len({json.dumps(t["g0"]) + json.dumps(t["jd"]) for t in traces if len(t["calls"]) > 1})
    chk.extra["rule"] = "one case = one annotated network with 1..4 successive extractions on one extractor; non-trivial = at least two extractions; distinct by (graph, annotations)"
    chk.assumptions += ["vertex annotations are positive in a topology wherever the vertex has an edge of it (excess tuples non-negative)"]


def replay(chk, data):
    chk.judge("MixingTrace", "MixingTrace.cfg", [execute(data["trace"]["case"])], label="replay", key_fn=_key)
