"""C18 - bond percolation keeps each edge independently with probability phi."""
import itertools
import random as _r

from . import perc as P

PHIS = [(0, 1), (1, 3), (1, 2), (3, 4), (1, 1)]


def run(chk):
    thorough = chk.tier == "thorough"
    chk.mc("MC_Percolation", "MC_Percolation.cfg", required=["Decide", "Eval", "EditAndPercolateAgain"])
    chk.mc("MC_Percolation", "MC_Percolation_stale.cfg", expect_violation="C18_OnlyCurrentEdges")
    rng = _r.Random(chk.seed)
    traces = []
    for n in (1, 2, 3, 4) + ((5,) if thorough else ()):
        V = list(range(n))
        pairs = list(itertools.combinations(V, 2))
        for mask in range(0, 1 << len(pairs)):
            if n == 5 and (bin(mask).count("1") > 6 or mask % 5):
                continue
            E = [list(pairs[i]) for i in range(len(pairs)) if mask >> i & 1]
            for a, b in PHIS:
                if b ** len(E) > 4100:
                    continue
                # vertex ids need not be 0..N-1: 1-based and strided relabellings of the same graph
                f = [lambda v: v, lambda v: v + 1, lambda v: 7 + 3 * v][(mask + a) % 3]
                case = {"V": [f(v) for v in V], "E": [[f(x), f(y)] for x, y in E], "a": a, "b": b, "mode": ("tree",)}
                if (mask + a) % 2 == 0 and 0 < len(E) < len(pairs):
                    # the graph object has a past: it was percolated with the same number of edges in other places, then edited
                    other = next(m for m in itertools.chain(range(mask + 1, 1 << len(pairs)), range(mask)) if bin(m).count("1") == len(E))
                    case["pre_E"] = [[f(pairs[i][0]), f(pairs[i][1])] for i in range(len(pairs)) if other >> i & 1]
                elif len(E) >= 2 and (mask + a) % 4 == 1:
                    case["pre_abort"] = [0.15, 0.4, 0.65, 0.9][(mask // 4) % 4]      # a percolation of this graph was abandoned part-way before
                traces.append(P.run_perc(case))
    for M in range(1, 9 if thorough else 7):                     # stars: (N*S - 1)/M ~ Binomial(M, phi)/M
        for a, b in PHIS:
            if b ** M > (70000 if thorough else 4100):
                continue
            hub = [0, M, 50][(M + a) % 3]          # the hub need not be the first or the smallest vertex
            leaves = [v for v in range(0, M + 1) if v != hub] if hub <= M else list(range(M))
            case = {"V": leaves[:1] + [hub] + leaves[1:], "E": [[hub, v] for v in leaves], "a": a, "b": b, "mode": ("tree",)}
            if M >= 2 and (M + a) % 2 == 0:
                case["pre_E"] = [[leaves[0], v] for v in leaves[1:] + [hub]]          # the hub used to be a leaf
            traces.append(P.run_perc(case))
    chk.exhaustive["the whole aligned RNG tree for every graph on <= 4 vertices (isolated vertices allowed) and stars with <= 6 leaves, phi in {0,1/3,1/2,3/4,1}"] = \
        all(t["exhaustive"] for t in traces if not t["raised"])
    from .. import crash
    crash.mc(chk)
    chk.extra["percolations_judged_after_an_abandoned_percolation_of_the_same_graph"] = sum(1 for t in traces if t["case"].get("pre_abort") is not None)
    und = [t for t in traces if t.get("undecided")]
    if und:
        chk.not_decided.append("retention law: RNG tree of bond_percolate not enumerable (%s)" % und[0]["undecided"])
    chk.rng_leaves = sum(len(t["leaves"]) for t in traces)
    for i in range(3000 if thorough else 60):
        n = rng.randrange(2, 31)
        E = [list(e) for e in itertools.combinations(range(n), 2) if rng.random() < rng.choice([0.05, 0.2, 0.5])]
        a, b = rng.choice(PHIS + [(2, 7), (9, 10)])
        traces.append(P.run_perc({"V": list(range(n)), "E": E, "a": a, "b": b, "mode": ("seed", rng.randrange(1 << 30), 20)}))
    chk.add_sample({k: (v if k != "leaves" else v[:6]) for k, v in traces[40].items()})
    P.judge(chk, traces, "C18")
    chk.nontrivial = len({str(t["E"]) + str((t["a"], t["b"])) for t in traces if t["E"] and 0 < t["a"] < t["b"]})
    chk.extra["rule"] = "one case = (graph, phi = a/b) with every resolution of the per-edge uniform draws on the b-point aligned grid; non-trivial = at least one edge and 0 < phi < 1"
    chk.assumptions += ["each edge decision is one random() draw compared with phi (aligned grid); otherwise the law clause is not decided"]


def replay(chk, data):
    P.judge(chk, [P.run_perc(data["trace"]["case"])], "replay", parallel=1)
