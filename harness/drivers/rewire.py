"""Shared driver for C11 / C12: clean motif networks, integer-weight targets, recorded executions of
MarkovChainMonteCarloRewiring.rewire() with a recording wrapper on swap_condition."""
import itertools
import random as _r

from ..core import watchdog, Timeout
from ..oracle import Oracle, OracleMismatch

DEN = 64.0          # target weights are w/64: products and ratios of such floats are exact
GRIDW = 4096
TOPNAMES = {2: "2-clique", 3: "3-clique", 4: "4-clique"}


def clean_network(rng, n, sizes, density, names=None):
    """place motifs on distinct vertices, edge-disjoint (motifs may share vertices).  sizes: clique sizes, or "d" for a
    diamond whose rim edges and chord carry two different topologies (a multi-topology corner).
    returns (edges [(a,b,top,mid)], jd list of tuples, tops list); jd[v][i] = number of motifs at v with a topology-i edge at v"""
    tops = []
    col = []          # per entry of sizes: list of (topology column) it uses
    for k, s_ in enumerate(sizes):
        if s_ == "d":
            col.append([len(tops), len(tops) + 1])
            tops += ["dia-outer", "dia-inner"]
        elif s_ == "w":      # wedge a -A- c -B- b: the corner at c has one edge of each of two topologies
            col.append([len(tops), len(tops) + 1])
            tops += ["wedge-a", "wedge-b"]
        else:
            col.append([len(tops)])
            tops.append(names[k] if names else TOPNAMES[s_])
    if names and "d" not in sizes and "w" not in sizes:
        tops = list(names)
    used = set()
    edges = []
    jd = [[0] * len(tops) for _ in range(n)]
    mid = 0
    target = int(density * n)
    tries = 0
    while mid < target and tries < 40 * target:
        tries += 1
        k = rng.randrange(len(sizes))
        s_ = sizes[k]
        nv = 4 if s_ == "d" else 3 if s_ == "w" else s_
        if nv > n:
            continue
        vs = rng.sample(range(n), nv)
        if s_ == "d":
            h1, r1, h2, r2 = vs
            es = [(h1, r1, 0), (r1, h2, 0), (h2, r2, 0), (r2, h1, 0), (h1, h2, 1)]
        elif s_ == "w":
            a_, c_, b_ = vs
            es = [(a_, c_, 0), (c_, b_, 1)]
        else:
            es = [(a, b, 0) for a, b in itertools.combinations(vs, 2)]
        prs = [tuple(sorted((a, b))) for a, b, _c in es]
        if any(p in used for p in prs):
            continue
        used.update(prs)
        for a, b, c in es:
            edges.append((min(a, b), max(a, b), tops[col[k][c]], mid))
        for v in vs:
            for c in {c for a, b, c in es if v in (a, b)}:
                jd[v][col[k][c]] += 1
        mid += 1
    return edges, [tuple(j) for j in jd], tops


def mc_nets():
    """the five networks of spec/MC_Rewiring.tla (vertices renumbered from 0)"""
    def tri(a, b, c, m): return [(a, b, "3-clique", m), (a, c, "3-clique", m), (b, c, "3-clique", m)]
    def e2(a, b, m): return [(a, b, "2-clique", m)]
    def k4(a, b, c, d, m): return [(x, y, "3-clique", m) for x, y in itertools.combinations((a, b, c, d), 2)]
    nets = {
        "gA": (8, tri(1, 2, 3, 0) + tri(4, 5, 6, 1) + e2(1, 7, 2) + e2(4, 8, 3)),
        "gB": (4, e2(1, 2, 0) + e2(2, 3, 1) + e2(3, 4, 2)),
        "gC": (8, tri(1, 2, 3, 0) + e2(3, 4, 1) + e2(5, 6, 2) + tri(5, 7, 8, 3)),
        "gD": (8, k4(1, 2, 3, 4, 0) + k4(5, 6, 7, 8, 1) + e2(1, 5, 2)),
        "gE": (8, tri(1, 2, 3, 0) + tri(3, 4, 5, 1) + tri(6, 7, 8, 2) + e2(1, 6, 3)),
    }
    out = {}
    for name, (n, es) in nets.items():
        es = [(a - 1, b - 1, t, m) for a, b, t, m in es]
        jd = []
        for v in range(n):
            c2 = sum(1 for a, b, t, m in es if v in (a, b) and t == "2-clique")
            c3 = len({m for a, b, t, m in es if v in (a, b) and t == "3-clique"})
            jd.append((c2, c3))
        out[name] = (es, jd, ["2-clique", "3-clique"])
    return out


def two_class_network(rng, na=60, ka=2, nb=30, kb=4):
    """2-cliques only, two degree classes (na vertices of degree ka, nb of degree kb), wired at random as a simple graph"""
    n = na + nb
    deg = [ka] * na + [kb] * nb
    order = list(range(n))
    rng.shuffle(order)                      # the classes are not contiguous in vertex order
    deg = [deg[order.index(v)] for v in range(n)]
    for _ in range(200):
        stubs = [v for v in range(n) for _k in range(deg[v])]
        rng.shuffle(stubs)
        pairs = list(zip(stubs[0::2], stubs[1::2]))
        if all(a != b for a, b in pairs) and len({frozenset(p) for p in pairs}) == len(pairs):
            return [(min(a, b), max(a, b), "2-clique", i) for i, (a, b) in enumerate(pairs)], [(d,) for d in deg], ["2-clique"]
    raise Exception("no simple two-class network found")


def make_target(rng, edges, jd, tops, mode):
    """symmetric integer weights on ordered pairs of excess keys; mode: uniform | random | assort | holes"""
    tgt = []
    # mode "complement": adversarial holes - an unordered pair of excess tuples is allowed in even-numbered topologies iff it is
    # forbidden in odd-numbered ones (existing pairings always stay allowed), so a lookup under the wrong topology or with the
    # wrong column decremented turns allowed into forbidden and vice versa
    coin = {}
    for i, t in enumerate(tops):
        keys = sorted({tuple(x - (1 if c == i else 0) for c, x in enumerate(j)) for j in jd if j[i] > 0})
        present = set()
        for a, b, tp, m in edges:
            if tp == t:
                ka = tuple(x - (1 if c == i else 0) for c, x in enumerate(jd[a]))
                kb = tuple(x - (1 if c == i else 0) for c, x in enumerate(jd[b]))
                present.add((ka, kb)); present.add((kb, ka))
        rows = []
        for x, ka in enumerate(keys):
            for kb in keys[x:]:
                if mode == "uniform":
                    w = 1
                elif mode == "assort":
                    w = 3 if ka == kb else 1
                else:
                    w = rng.randrange(1, 4)
                if mode == "complement" and ka != kb and (ka, kb) not in present:
                    side = coin.setdefault(frozenset((ka, kb)), rng.random() < 0.5)
                    if side == (i % 2 == 0):
                        w = 0
                if mode in ("holes", "manyholes") and ka != kb and (ka, kb) not in present and rng.random() < (0.5 if mode == "holes" else 0.85):
                    w = 0
                rows.append({"a": list(ka), "b": list(kb), "w": w})
                if ka != kb:
                    rows.append({"a": list(kb), "b": list(ka), "w": w})
        tgt.append(rows)
    return tgt


_INV = {}      # vertex label -> index of the case being executed (identity unless the case relabels its vertices)


def _ix(v):
    """vertex label of the network under test -> the index the trace speaks about; unknown labels land outside the input"""
    try:
        return _INV.get(v, 100000 + (int(v) % 1000)) if _INV else int(v)
    except Exception:
        return 100999


def labels_of(case, n):
    """the library never promises that vertices are 0..N-1: 'shift' = 1000 + 7 v, 'big' = 70000 + v (beyond the small-int cache)"""
    how = case.get("labels", "id")
    return [v if how == "id" else 1000 + 7 * v if how == "shift" else 70000 + v for v in range(n)]


def _graph_edges(G):
    from gcmpy import NetworkNames as NN
    out = []
    for a, b in G.edges():
        d = G.edges[a, b]
        x, y = _ix(a), _ix(b)
        out.append([min(x, y), max(x, y), str(d.get(NN.TOPOLOGY, "?")), int(d.get(NN.MOTIF_IDS, -1))])
    return sorted(out)


def execute(case):
    """case: edges, jd, tops, target, limit (-1 = omitted), search (-1 = omitted), rng ('seed', s) | ('plan', p), wrap: bool"""
    import networkx as nx
    import gcmpy
    from gcmpy import NetworkNames as NN, ToolsNames as TN
    n = len(case["jd"])
    net = gcmpy.Network()
    L = labels_of(case, n)
    _INV.clear()
    if case.get("labels", "id") != "id":
        _INV.update({L[i]: i for i in range(n)})
    net.G.add_nodes_from(L)
    for v in range(n):
        # the generators store whatever sequence they were given: tuples (the samplers' output) or lists
        net.G.nodes[L[v]][NN.JOINT_DEGREE] = list(case["jd"][v]) if case.get("jd_as_list") else tuple(case["jd"][v])
    for a, b, t, m in case["edges"]:
        net.G.add_edge(L[a], L[b])
        net.G.edges[L[a], L[b]][NN.TOPOLOGY] = t
        net.G.edges[L[a], L[b]][NN.MOTIF_IDS] = m
    ejks = {}
    order = list(zip(case["tops"], case["target"]))
    if case.get("ejk_order") == "reversed":      # the target dictionary need not be filled in the order of the name list
        order = order[::-1]
    for t, rows in order:
        ejks[t] = {tuple(r["a"]) + tuple(r["b"]): r["w"] / DEN for r in rows if r["w"] > 0 or case.get("keep_zero_keys")}
    tr = {"case": case, "V": list(range(n)), "jd": [list(j) for j in case["jd"]], "tops": list(case["tops"]),
          "target": case["target"], "g0": _graph_edges(net.G), "g0_after": [], "input_annotations_same": True,
          "output_annotations_same": True, "gout": [], "gout_again": [], "vout": [], "raised": "", "timeout": False,
          "steps_known": False, "steps": [], "aborted": False, "distance": bool(case.get("distance"))}
    import copy as _copy
    nattr0 = {v: _copy.deepcopy(dict(net.G.nodes[v])) for v in net.G.nodes()}
    try:
        target = gcmpy.JointExcessJointDegreeMatrices({TN.EJKS: ejks, TN.EDGE_NAMES: list(case["tops"])})
        first_target = target
        if case.get("retarget"):
            # history: the object is built with ANOTHER (uniform, full-support) target and re-targeted through the ejks setter
            uni = {t: {k: 1.0 / DEN for k in d} for t, d in ejks.items()}
            for t, rows in zip(case["tops"], case["target"]):
                for r in rows:
                    uni[t][tuple(r["a"]) + tuple(r["b"])] = 1.0 / DEN
            first_target = gcmpy.JointExcessJointDegreeMatrices({TN.EJKS: uni, TN.EDGE_NAMES: list(case["tops"])})
        params = {TN.NETWORK: net, TN.EJKS: first_target}
        if case.get("limit", -1) >= 0:
            params[TN.CONVERGENCE_LIMIT] = case["limit"]
        if case.get("search", -1) >= 0:
            params[TN.SEARCH_LIMIT] = case["search"]
        mcmc = gcmpy.MarkovChainMonteCarloRewiring(params)
    except Exception as ex:
        tr["raised"] = "construction: %s: %s" % (type(ex).__name__, str(ex)[:80])
        tr["g0_after"] = _graph_edges(net.G)
        return tr
    if case.get("retarget"):
        mcmc.ejks = target
    pre = case.get("pre")
    if pre:
        # history on ONE rewiring object: it first rewired another network (same vertex labels, other joint degrees),
        # then was handed the judged network through the `network` setter
        try:
            other = gcmpy.Network()
            other.G.add_nodes_from(L[:len(pre["jd"])])
            for v in range(len(pre["jd"])):
                other.G.nodes[L[v]][NN.JOINT_DEGREE] = tuple(pre["jd"][v])
            for a, b, t, m in pre["edges"]:
                other.G.add_edge(L[a], L[b])
                other.G.edges[L[a], L[b]][NN.TOPOLOGY] = t
                other.G.edges[L[a], L[b]][NN.MOTIF_IDS] = m
            mcmc.network = other
            mcmc.convergence_limit = pre.get("limit", 2)
            with watchdog(1):
                Oracle().run_seeded(pre.get("seed", 9), mcmc.rewire, grid=GRIDW)
        except (Exception, Timeout):
            pass
        mcmc.network = net
        if case.get("limit", -1) >= 0:
            mcmc.convergence_limit = case["limit"]
    if case.get("pre_abort") is not None:
        # crash point: a rewiring of the SAME network on this object was abandoned part-way (Ctrl-C while a swap is evaluated);
        # the caller keeps the object and rewires again: the input network must be as it was and the judged run a valid one
        from ..crash import abort_at
        try:
            with watchdog(5):
                tr["pre_abort_outcome"] = Oracle().run_seeded(case.get("pre_abort_seed", 5),
                                                              lambda: abort_at(mcmc.rewire, 40 + int(case["pre_abort"] * 4000)), grid=GRIDW)
        except (Exception, Timeout):
            pass
    orc = Oracle()
    orc.zero_draws = case.get("zero_draws", 0)
    steps = []
    recording = [True]
    last = [tr["g0"]]
    if case.get("wrap", True) and callable(getattr(mcmc, "swap_condition", None)):
        orig = mcmc.swap_condition

        def wrapper(G, e0s, e1s, u0, v0, *a, **k):
            snap = _graph_edges(G)
            st = {"u0": _ix(u0), "v0": _ix(v0), "e0s": [[_ix(x), _ix(y)] for x, y in e0s], "e1s": [[_ix(x), _ix(y)] for x, y in e1s],
                  "has_g": snap != last[0], "g": snap if snap != last[0] else [], "result": False, "drew": False, "j": 0, "W": 1, "uz": False}
            last[0] = snap
            pos = len(orc.trail)
            res = orig(G, list(e0s), list(e1s), u0, v0, *a, **k)
            st["result"] = bool(res)
            new = [t for t in orc.trail[pos:] if t[0] == "r"]
            if len(new) == 1 and new[0][1] > 0:
                st["drew"], st["W"], st["j"] = True, new[0][1], max(new[0][2], 0)
                st["uz"] = new[0][2] < 0
            if not recording[0]:
                return res
            if len(steps) < 1500:
                steps.append(st)
            else:
                tr["steps_truncated"] = True
            return res
        mcmc.swap_condition = wrapper
        tr["steps_known"] = True
    try:
        with watchdog(case.get("watchdog", 40)):
            if case["rng"][0] == "seed":
                R = orc.run_seeded(case["rng"][1], mcmc.rewire, grid=GRIDW)
            else:
                R = orc.run_directed(case["rng"][1], mcmc.rewire, grid=GRIDW)
    except Timeout:
        tr["timeout"] = True
        R = None
    except OracleMismatch:
        tr["aborted"] = True      # directed plan exhausted: the proposed pair was not swappable
        R = None
    except Exception as ex:
        tr["raised"] = "%s: %s" % (type(ex).__name__, str(ex)[:80])
        R = None
    tr["g0_after"] = _graph_edges(net.G)
    tr["input_annotations_same"] = {v: dict(net.G.nodes[v]) for v in net.G.nodes()} == nattr0 and set(net.G.nodes()) == set(nattr0)
    tr["steps"] = steps
    if tr.get("steps_truncated"):
        tr["steps_known"], tr["steps"] = False, []
    tr.pop("steps_truncated", None)
    if R is not None:
        tr["gout"] = _graph_edges(R)
        tr["vout"] = [_ix(v) for v in R.nodes()]
        tr["output_annotations_same"] = {v: dict(R.nodes[v]) for v in R.nodes()} == nattr0
        tr["gout_again"] = tr["gout"]
        if case.get("again") and not case.get("distance"):
            # the returned graph belongs to the caller: rewiring once more with the same object must not change it
            recording[0] = False
            try:
                mcmc.convergence_limit = 1
                with watchdog(1):
                    Oracle().run_seeded(77, mcmc.rewire, grid=GRIDW)
            except (Exception, Timeout):
                pass
            tr["gout_again"] = _graph_edges(R)
    else:
        tr["gout"] = last[0] if not steps or not steps[-1]["result"] else last[0]
        tr["gout_again"] = tr["gout"]
        tr["vout"] = list(range(n))
        if steps and steps[-1]["result"]:
            # the last accepted swap's effect was never observed: drop that call
            tr["steps"] = steps[:-1]
    return tr


def edge_index_plan(case, e0, e1):
    """directed plan realising the draws e0, e1 (indices into the DrawSet list built by rewire) and acceptance (j = 0)"""
    import networkx as nx
    G = nx.Graph()
    G.add_nodes_from(range(len(case["jd"])))
    for a, b, t, m in case["edges"]:
        G.add_edge(a, b)
    lst = [tuple(sorted(e)) for e in G.edges()]
    return [lst.index(tuple(sorted(e0))), lst.index(tuple(sorted(e1))), 0]


def key_fn(tr, v):
    if v.get("pinned_only"):
        return "pinned-motif-id-inheritance"
    return v["v"].split(":", 1)[-1]


def judge(chk, prop, traces, label):
    B = 400
    out = []
    for i in range(0, len(traces), B):
        out += chk.judge("RewiringTrace", "RewiringTrace.cfg", traces[i:i + B], label="%s %s %d" % (prop, label, i // B),
                         env={"PROPERTY": prop}, key_fn=key_fn, heap="8g")
    return out


def judge_parallel(chk, prop, traces, label):
    small = [t for t in traces]
    return chk.judge("RewiringTrace", "RewiringTrace.cfg", small, label="%s %s" % (prop, label), env={"PROPERTY": prop},
                     key_fn=key_fn, heap="3g", parallel=10)
