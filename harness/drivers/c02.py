"""C02 - edge-list columns stay parallel, motif ids well formed (shares C01's driver)."""
from . import c01


def run(chk):
    c01.run(chk, "C02")


def replay(chk, data):
    c01.replay(chk, data, "C02")
