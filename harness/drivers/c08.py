"""C08 - joint degrees derived from a clique cover count cliques per vertex."""
import itertools
import random as _r

from . import loaders as L


def random_cover(rng, sizes, nverts, ncliques, base):
    """cliques of the given sizes over contiguous vertices base..base+nverts-1 (every vertex used)"""
    verts = list(range(base, base + nverts))
    cover = []
    for i in range(ncliques):
        s = sizes[i % len(sizes)]
        if s > nverts:
            return None
        cover.append(sorted(rng.sample(verts, s)))
    used = {v for c in cover for v in c}
    for v in verts:
        if v not in used:       # attach leftover vertices with one more clique of an allowed size
            s = rng.choice(sizes)
            others = rng.sample([x for x in verts if x != v], s - 1)
            cover.append(sorted([v] + others))
    return cover


def run(chk):
    thorough = chk.tier == "thorough"
    chk.mc("Loaders", "MC_Loaders.cfg", required=["ResolveDegree", "DeleteColumn", "CreateJdd", "TryCandidate", "Restore"])
    chk.mc("Loaders", "MC_Loaders_rejectleak.cfg", expect_violation="C06_Law")   # deviation: a rejected candidate input leaves something behind
    from .. import crash
    crash.mc(chk)
    chk.mc("Loaders", "MC_Loaders_pinned_asc.cfg", expect_violation="C08_ColumnsAreOccurringSizes")
    rng = _r.Random(chk.seed)
    cs = []
    mixes = [list(m) for r in (1, 2, 3, 4) for m in itertools.combinations([2, 3, 4, 5], r)] + [[2, 6], [3, 7], [2, 4, 8]] \
        + [[1, 2], [1, 3], [1, 2, 4]]          # singleton cliques (a vertex covered on its own) give motif size 1
    for mix in mixes:                       # every mixture of sizes incl. the non-adjacent ones ({2,4} {2,5} {3,5} {2,4,5} ...)
        for base in (0, 1):
            for rep in range(60 if thorough else 4):
                nv = max(mix) + rng.randrange(0, 5)
                c = random_cover(rng, mix, nv, rng.randrange(len(mix), len(mix) + 4), base)
                if c:
                    cs.append({"kind": "cover", "cover": c, "seed": rng.randrange(1 << 30), "compose_n": [0, 1, 2, 3][rep % 4]})
    # exhaustive small family: all covers made of <= 2 cliques over vertices 0..3 (and 1..4)
    cl = [list(c) for s in (2, 3, 4) for c in itertools.combinations(range(4), s)]
    for r in (1, 2):
        for combo in itertools.combinations_with_replacement(cl, r):
            used = sorted({v for c in combo for v in c})
            if used == list(range(len(used))):
                for base in (0, 1):
                    cs.append({"kind": "cover", "cover": [[v + base for v in c] for c in combo], "seed": 1})
    # crash points: a malformed candidate cover is rejected by create_jdd and the previous cover is put back
    for i, c0 in enumerate([c for c in cs if c.get("cover")][:90 if not thorough else 600]):
        cs.append(dict(c0, reject=1 + i % 3, compose_n=0))
    for i, c0 in enumerate([c for c in cs if c.get("cover") and not c.get("reject")][:60 if not thorough else 600]):
        cs.append(dict(c0, pre_abort=rng.random(), compose_n=0))
    chk.exhaustive["all covers of <= 2 cliques (sizes 2..4) over contiguous vertices 0..3 / 1..4"] = True
    for i in range(15000 if thorough else 150):
        mix = rng.choice(mixes)
        c = random_cover(rng, mix, max(mix) + rng.randrange(0, 30), rng.randrange(1, 25), rng.choice([0, 1]))
        if c:
            cs.append({"kind": "cover", "cover": c, "seed": rng.randrange(1 << 30)})
    for base in (0, 1):
        for hubcount, extra in ((256, [2, 3]), (300, [2, 4]), (257, [3])):
            # a hub vertex in hundreds of cliques of one size (per-vertex counts beyond 255)
            sz = extra[-1]
            cover, nxt = [], base + 1
            for _ in range(hubcount):
                cover.append([base] + list(range(nxt, nxt + sz - 1))); nxt += sz - 1
            if len(extra) > 1:
                cover.append(list(range(base + 1, base + 1 + extra[0])))
            cs.append({"kind": "cover", "cover": cover, "seed": 5})
    traces = [L.execute(c) for c in cs]
    chk.add_sample(traces[0]); chk.add_sample(traces[len(traces) // 2])
    L.judge(chk, traces, "C08")
    chk.nontrivial = len({str(t["cover"]) for t in traces if len({len(c) for c in t["cover"]}) > 1})
    chk.extra["rule"] = "one case = one clique cover; non-trivial = at least two distinct clique sizes; distinct by cover"
    chk.assumptions += ["vertex ids contiguous from 0 or 1 and every vertex in at least one clique (the statement's domain)"]


def replay(chk, data):
    L.judge(chk, [L.execute(data["trace"]["case"])], "replay")
