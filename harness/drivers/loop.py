"""LOOP - not a listed property: the control flow of rewire() (spec/RewireLoop.tla), validated event by event.
Run with ./check LOOP; part of the growth of the specification beyond the listed properties (DESIGN.md 9).

The recorder is attached from outside (no hook in /repo): DrawSet.draw is wrapped on the class for the duration of the
call, get_all_edges / is_edge_choice_suitable / swap_condition on the instance.  One event per call, in program order
(rewire() is sequential, so the linearisation point of each event is simply the call's return)."""
import random as _r

from . import rewire as R
from ..core import watchdog, Timeout
from ..oracle import Oracle

MAXEV = 600


class _Stop(BaseException):
    """raised by the recorder when the event budget is spent (rewire() need not terminate)"""


def execute(case):
    import gcmpy
    from gcmpy import NetworkNames as NN, ToolsNames as TN
    from gcmpy.tools import draw_set as DS
    from gcmpy.tools.markov_chain_monte_carlo import MarkovChainMonteCarlo as Base
    n = len(case["jd"])
    net = gcmpy.Network()
    net.G.add_nodes_from(range(n))
    for v in range(n):
        net.G.nodes[v][NN.JOINT_DEGREE] = tuple(case["jd"][v])
    for a, b, t, m in case["edges"]:
        net.G.add_edge(a, b)
        net.G.edges[a, b][NN.TOPOLOGY] = t
        net.G.edges[a, b][NN.MOTIF_IDS] = m
    ejks = {t: {tuple(r["a"]) + tuple(r["b"]): r["w"] / R.DEN for r in rows if r["w"] > 0} for t, rows in zip(case["tops"], case["target"])}
    tr = {"case": case, "limit": case["limit"], "search": case["search"], "events": [], "returned": False, "truncated": False,
          "raised": "", "class_props": 0, "class_acc": 0, "inst_props": 0, "ratio_len": 0}
    target = gcmpy.JointExcessJointDegreeMatrices({TN.EJKS: ejks, TN.EDGE_NAMES: list(case["tops"])})
    mcmc = gcmpy.MarkovChainMonteCarloRewiring({TN.NETWORK: net, TN.EJKS: target, TN.CONVERGENCE_LIMIT: case["limit"],
                                                TN.SEARCH_LIMIT: case["search"]})
    ev = tr["events"]
    work = {"G": net.G, "snap": frozenset(frozenset(e) for e in net.G.edges()), "gver": 0}

    def gver():
        s = frozenset(frozenset(e) for e in work["G"].edges())
        if s != work["snap"]:
            work["snap"], work["gver"] = s, work["gver"] + 1
        return work["gver"]

    def emit(name, top="", r=False, ok=True):
        if len(ev) >= MAXEV:
            tr["truncated"] = True
            raise _Stop()
        ev.append({"ev": name, "top": top, "r": bool(r), "ok": bool(ok), "gver": gver()})

    orig_draw = DS.DrawSet.draw

    def draw(self):
        e = orig_draw(self)
        G = work["G"]
        in_g = G.has_edge(*e)
        gver()                                    # refresh the snapshot of the working graph
        mirror = in_g and {frozenset(x) for x in self} == set(work["snap"])
        emit("draw", top=str(G.edges[e].get(NN.TOPOLOGY, "?")) if in_g else "?", ok=mirror)
        return e

    o_corner, o_suit, o_metro = mcmc.get_all_edges, mcmc.is_edge_choice_suitable, mcmc.swap_condition

    def corner(G, u0, edge, *a, **k):
        work["G"] = G
        res = o_corner(G, u0, edge, *a, **k)
        emit("corner")
        return res

    def suitable(G, *a, **k):
        work["G"] = G
        res = o_suit(G, *a, **k)
        emit("suitable", r=res)
        return res

    def metro(G, *a, **k):
        work["G"] = G
        res = o_metro(G, *a, **k)
        emit("metropolis", r=res)
        return res
    mcmc.get_all_edges, mcmc.is_edge_choice_suitable, mcmc.swap_condition = corner, suitable, metro
    c0 = (Base._proposal_count, Base._proposals_accepted)
    DS.DrawSet.draw = draw
    try:
        with watchdog(case.get("watchdog", 20)):
            out = Oracle().run_seeded(case["seed"], mcmc.rewire, grid=R.GRIDW)
        work["G"] = out
        tr["returned"] = True
        emit("return")
    except _Stop:
        pass
    except Timeout:
        tr["truncated"] = True
    except Exception as ex:
        tr["raised"] = "%s: %s" % (type(ex).__name__, str(ex)[:80])
    finally:
        DS.DrawSet.draw = orig_draw
    tr["class_props"] = int(Base._proposal_count - c0[0])
    tr["class_acc"] = int(Base._proposals_accepted - c0[1])
    tr["inst_props"] = int(getattr(mcmc, "_proposal_count", 0))
    tr["ratio_len"] = len(getattr(mcmc, "_acceptance_ratio", []))
    return tr


def run(chk):
    chk.mc("RewireLoop", "MC_RewireLoop.cfg", required=["DrawE0", "CornerE0", "DrawE1Match", "DrawE1Mismatch", "CornerE1", "SuitableYes",
                                                          "SuitableNo", "Accept", "Reject", "Return"])
    chk.mc("RewireLoop", "MC_RewireLoop_keep.cfg")
    chk.mc("RewireLoop", "MC_RewireLoop_keep_zero.cfg")
    chk.mc("RewireLoop", "MC_RewireLoop_discard.cfg", expect_violation="L_EverySuitablePairIsEvaluated")
    chk.mc("RewireLoop", "MC_RewireLoop_zero.cfg", expect_violation="L_Terminates")
    chk.mc("RewireLoop", "MC_RewireLoop_instance.cfg", expect_violation="L_RatioNeverSampled")
    rng = _r.Random(chk.seed)
    traces = []
    for i in range(1200 if chk.tier == "thorough" else 160):
        nv = rng.choice([8, 10, 12, 16, 20])
        sizes = rng.choice([[2], [2, 3], [2, 3], [2, 3, 4], [3], [2, "d"], ["w", 2]])
        es, jd, tops = R.clean_network(rng, nv, sizes, rng.choice([0.6, 0.9, 1.2]))
        if len(es) < 4:
            continue
        tg = R.make_target(rng, es, jd, tops, rng.choice(["random", "holes", "uniform"]))
        tr = execute({"edges": es, "jd": jd, "tops": tops, "target": tg, "limit": rng.choice([0, 1, 2, 3, 5, 8]),
                      "search": rng.choice([0, 1, 2, 3, 5, 25]), "seed": rng.randrange(1 << 30), "watchdog": 5})
        if tr["raised"]:
            continue
        traces.append(tr)
    chk.add_sample(traces[0])
    vs = chk.judge("RewireLoopTrace", "RewireLoopTrace.cfg", traces, label="control flow", key_fn=lambda tr, v: v["v"], parallel=6)
    chk.extra["events_validated"] = sum(len(t["events"]) for t in traces)
    chk.extra["executions_that_returned"] = sum(1 for t in traces if t["returned"])
    chk.extra["executions_cut_at_the_event_budget (search_limit 0 never returns, as MC_RewireLoop_zero shows)"] = sum(1 for t in traces if t["truncated"])
    chk.extra["suitable_pairs_discarded_on_the_last_attempt"] = sum(v.get("discarded", 0) for v in vs)
    chk.extra["accepted_swaps"] = sum(v.get("swaps", 0) for v in vs)
    chk.nontrivial = sum(1 for v in vs if v.get("swaps", 0) > 0)
    chk.extra["rule"] = "one case = one rewire() call with every draw / corner / suitability / Metropolis call as an event; non-trivial = at least one accepted swap"


def replay(chk, data):
    chk.judge("RewireLoopTrace", "RewireLoopTrace.cfg", [execute(data["trace"]["case"])], label="replay", key_fn=lambda tr, v: v["v"])
