"""Shared driver for C06 / C07 / C08: builds the loaders from integer-weight cases, reads .jdd
back after construction, after a second create_jdd() and through the entry point, and encodes
every value with the denominator the specification dictates (judged by LoadersTrace.tla)."""
import itertools
import json
import math
import os
import random as _r

from .. import tlc
from ..exact import decode
from ..oracle import Oracle, OracleMismatch
from ..core import watchdog, Timeout


def _table(jdd, den_of):
    """encode a dict key->float; den_of(key) -> dictated denominator (int)"""
    rows = []
    for key, x in jdd.items():
        try:
            k = [int(v) for v in key]
        except Exception:
            k = [-1]
        D = int(den_of(tuple(k)))
        n, ok = decode(x, D)
        rows.append({"key": k, "n": n, "ok": bool(ok), "D": D, "nonneg": bool(x >= -1e-12)})
    return rows


def _base(kind, case):
    return {"kind": kind, "case": case, "raised": "", "first": [], "second": [], "entry": [],
            "have_second": False, "have_entry": False, "second_raised": "", "entry_raised": "", "earlier_changed": False,
            "after_sampling": [], "have_after_sampling": False}


class _InjectedFault(Exception):
    pass


_FAULT = {"at": None, "n": 0}     # crash point: the k-th call of a user callable raises (once)


def _faulty(fn):
    """a user callable that raises at the armed call (Loaders!TryCandidate .. Restore: the aborted construction is caught by the caller)"""
    def g(*a, **k):
        if _FAULT["at"] is not None:
            _FAULT["n"] += 1
            if _FAULT["n"] >= _FAULT["at"]:
                _FAULT["at"] = None
                raise _InjectedFault("user callable raised (injected crash point)")
        return fn(*a, **k)
    return g


_HELD = []      # the last few loader objects with the table they reported when they were built


def _earlier_unchanged(tr):
    """loaders built earlier in this process still report the table they reported then"""
    for obj, den_of, was in _HELD:
        try:
            now = json.dumps(sorted(_table(obj.jdd, den_of), key=lambda r: r["key"]))
        except Exception:
            now = "raised"
        if now != was:
            tr["earlier_changed"] = True


def _history(tr, build_direct, build_entry, den_of, deterministic=True, on_pre_done=None):
    """first / second / entry tables"""
    k_fault = tr["case"].get("pre_fault")
    if k_fault:
        # history: an earlier construction with the SAME callables / inputs was aborted by the k-th callback call raising
        _FAULT.update({"at": k_fault, "n": 0})
        try:
            with watchdog(30):
                build_direct()
        except _InjectedFault:
            tr["pre_aborted"] = True
        except Timeout:
            raise
        except Exception:
            pass
        _FAULT["at"] = None
        if on_pre_done:
            on_pre_done()
    fr = tr["case"].get("pre_abort")
    if fr is not None:
        # history: an earlier construction from the same inputs was abandoned part-way at an arbitrary line (CrashPoints.tla)
        # (the crash point is chosen without a counting run first: a complete run would warm whatever module-level memo the
        # implementation keeps, and the abandoned call is meant to be the one that meets it cold)
        from ..crash import abort_at
        try:
            with watchdog(60):
                tr["pre_abort_outcome"] = abort_at(build_direct, 1 + int(fr * fr * 1500))
        except Timeout:
            raise
        if on_pre_done:
            on_pre_done()
    try:
        with watchdog(30):
            obj = build_direct()
            tr["first"] = _table(obj.jdd, den_of)
    except Timeout:
        raise
    except Exception as ex:
        tr["raised"] = "%s: %s" % (type(ex).__name__, str(ex)[:70])
        return None
    # drawing a sequence from the loader must leave the law it exposes as it is
    try:
        Oracle().run_seeded(11, lambda: obj.sample_jds_from_jdd(3))
        tr["after_sampling"] = _table(obj.jdd, den_of)
        tr["have_after_sampling"] = True
    except Exception:
        pass
    if deterministic:
        try:
            obj.create_jdd()
            tr["second"] = _table(obj.jdd, den_of)
            tr["have_second"] = True
        except Exception as ex:
            tr["second_raised"] = type(ex).__name__
        try:
            e = build_entry()
            tr["entry"] = _table(e.jdd, den_of)
            tr["have_entry"] = True
        except Exception as ex:
            tr["entry_raised"] = type(ex).__name__
    _earlier_unchanged(tr)
    try:
        _HELD.append((obj, den_of, json.dumps(sorted(_table(obj.jdd, den_of), key=lambda r: r["key"]))))
        del _HELD[:-3]
    except Exception:
        pass
    return obj


# --------------------------------------------------------------------------- C06
def run_manual(case):
    import gcmpy
    from gcmpy import JointDegreeNames as JN
    D = case["D"]
    d = {tuple(k): w / D for k, w in case["d"]}
    tr = _base("manual", case)
    tr["d"] = [{"key": list(k), "w": w} for k, w in case["d"]]
    p = {JN.JDD: d, JN.MOTIF_SIZES: case["sizes"]}
    if case.get("shared_params"):
        # one parameter dictionary for a whole pipeline: it also carries the keys other components read (their own JDD entry,
        # edge names, a network); the manual loader returns the dictionary given under ITS key
        from gcmpy import ToolsNames as TN, GCMAlgorithmNames as GN
        if len(case["d"]) % 2:
            p = {}                               # the other components' entries may have been stored first or last
        p[TN.JDD] = {(9,) * len(case["sizes"]): 1.0}
        p[TN.EDGE_NAMES] = ["x"] * len(case["sizes"])
        p[GN.MOTIF_SIZES] = [7] * len(case["sizes"])
        if len(case["d"]) % 2:
            p[JN.JDD] = d
            p[JN.MOTIF_SIZES] = case["sizes"]
    _history(tr, lambda: gcmpy.JointDegreeManual(dict(p)),
             lambda: gcmpy.JointDegreeDistribution.load_joint_degree({**p, JN.JOINT_DEGREE_TYPE: "manual"}),
             lambda key: D)
    return tr


def run_empirical(case):
    import gcmpy
    from gcmpy import JointDegreeNames as JN
    obs = [tuple(o) for o in case["obs"]]
    tr = _base("empirical", case)
    tr["obs"] = [list(o) for o in obs]
    p = {JN.JDS: obs, JN.MOTIF_SIZES: case["sizes"]}

    def direct():
        if case.get("pre_obs"):
            # history: the loader object held another observed sequence before; the new one is installed through the
            # public property and the table rebuilt
            ld = gcmpy.JointDegreeEmpirical({JN.JDS: [tuple(o) for o in case["pre_obs"]], JN.MOTIF_SIZES: case["sizes"]})
            ld.empirical_jds = list(obs)
            ld.create_jdd()
            return ld
        return gcmpy.JointDegreeEmpirical(dict(p))
    _history(tr, direct,
             lambda: gcmpy.JointDegreeDistribution.load_joint_degree({**p, JN.JOINT_DEGREE_TYPE: "empirical"}),
             lambda key: len(obs))
    return tr


def run_function(case):
    import gcmpy
    from gcmpy import JointDegreeNames as JN
    D = case["D"]
    cells = {tuple(k): w for k, w in case["cells"]}
    tr = _base("function", case)
    tr["cells"] = [{"key": list(k), "w": w} for k, w in case["cells"]]
    tr["bounds"] = [list(b) for b in case["bounds"]]
    p = {JN.FP: _faulty(lambda jd: cells[tuple(jd)] / D), JN.MOTIF_SIZES: case["sizes"],
         JN.LOW_HIGH_DEGREE_BOUND: [tuple(b) for b in case["bounds"]]}
    _history(tr, lambda: gcmpy.JointDegreeFunction(dict(p)),
             lambda: gcmpy.JointDegreeDistribution.load_joint_degree({**p, JN.JOINT_DEGREE_TYPE: "function"}),
             lambda key: D)
    return tr


def _marginal_params(case, extra=None):
    from gcmpy import JointDegreeNames as JN
    F = [dict((k, w) for k, w in col) for col in case["F"]]
    dens = case["dens"]
    # un-normalised marginals may be tiny in absolute terms (Boltzmann-type weights): an exact power of two keeps every ratio exact
    fscale = 2.0 ** -case.get("fscale_pow", 0)
    fps = [_faulty(lambda k, i=i: F[i].get(int(k), 0) / dens[i] * fscale) for i in range(len(F))]
    if case.get("shared_callable"):
        # the SAME callable object serves every topology (requires identical tables, as the case builder guarantees)
        fps = [fps[0]] * len(F)
    p = {JN.ARR_FP: fps, JN.MOTIF_SIZES: case["sizes"], JN.LOW_HIGH_DEGREE_BOUND: [tuple(b) for b in case["bounds"]]}
    p.update(extra or {})
    return p, F


def run_marginal(case):
    import gcmpy
    from gcmpy import JointDegreeNames as JN
    p, F = _marginal_params(case, {JN.USE_SAMPLING: False} if case.get("explicit_false") else None)   # the flag spelled out
    tr = _base("marginal", case)
    tr["F"] = [[{"k": k, "w": w} for k, w in col] for col in case["F"]]
    tr["bounds"] = [list(b) for b in case["bounds"]]
    prod = lambda key: math.prod(F[i].get(key[i], 0) for i in range(len(F))) if len(key) == len(F) else 0
    holder = {}

    def den_of(key):
        return holder["Z"]

    def direct():
        o = gcmpy.JointDegreeMarginal(dict(p))
        holder["Z"] = max(1, sum(prod(tuple(int(v) for v in k)) for k in o.jdd))
        return o
    _history(tr, direct,
             lambda: gcmpy.JointDegreeDistribution.load_joint_degree({**p, JN.JOINT_DEGREE_TYPE: "marginal"}), den_of)
    return tr


def run_marginal_sample1(case):
    """sampling mode with one sample: walk the whole RNG tree on the aligned grid"""
    import gcmpy
    from gcmpy import JointDegreeNames as JN
    p, F = _marginal_params(case, {JN.USE_SAMPLING: True, JN.N_SAMPLES: 1})
    tr = _base("marginal_sample1", case)
    tr["F"] = [[{"k": k, "w": w} for k, w in col] for col in case["F"]]
    tr["bounds"] = [list(b) for b in case["bounds"]]
    tr.update({"decided": True, "tally": [], "why": "", "leaves": 0, "not_single": False})
    Ws = [sum(F[i].get(k, 0) for k in range(b[0], b[1] + 1)) for i, b in enumerate(case["bounds"])]
    grid = lambda idx: Ws[idx % len(Ws)] if Ws else 0       # every (re)build draws one uniform number per topology, in order
    from fractions import Fraction
    tally = {}
    orc = Oracle()
    total_w = 1
    for w_ in Ws:
        total_w *= w_
    try:
        if case.get("via") == "entry":      # the dispatching entry point (it builds the table a second time)
            build = lambda: gcmpy.JointDegreeDistribution.load_joint_degree({**p, JN.JOINT_DEGREE_TYPE: "marginal"})
        else:
            build = lambda: gcmpy.JointDegreeMarginal(dict(p))
        for obj, trail, wgt in orc.enumerate(build, grid=grid, max_leaves=20000):
            tr["leaves"] += 1
            keys = list(obj.jdd)
            if len(keys) != 1:
                tr["not_single"] = True      # the relative frequencies of ONE sample are one tuple with weight 1, however it is drawn
                break
            if any(t[0] != "r" for t in trail):
                tr["decided"], tr["why"] = False, "one-sample run is not a single tuple drawn through random()"
                break
            k = tuple(int(v) for v in keys[0])
            tally[k] = tally.get(k, Fraction(0)) + wgt
            if tr["leaves"] % 5 == 1:
                # the aligned grid is exact only if each uniform draw is used through comparisons with multiples of 1/W_i:
                # replay the leaf with the draws moved to both ends of their cells
                plan = [t[2] for t in trail]
                for cell in (0.002, 0.998):
                    o2 = Oracle(); o2.cell = cell
                    try:
                        k2 = [tuple(int(v) for v in kk) for kk in o2.run_directed(plan, build, grid=grid).jdd]
                    except Exception:
                        k2 = None
                    if k2 != [k]:
                        tr["decided"], tr["why"] = False, "the sample depends on the uniform draws beyond comparisons with multiples of 1/W_i (grid not exact)"
                if not tr["decided"]:
                    break
        # exact probability of each tuple as an integer over prod_i W_i (whatever number of draws the code makes)
        for k in list(tally):
            x = tally[k] * total_w
            if x.denominator != 1:
                tr["decided"], tr["why"] = False, "leaf weights are not multiples of 1/prod W_i (draws not on the aligned grid)"
                break
            tally[k] = int(x)
    except OracleMismatch as ex:
        tr["decided"], tr["why"] = False, "oracle: %s" % ex
    except Exception as ex:
        tr["raised"] = "%s: %s" % (type(ex).__name__, str(ex)[:70])
    if not tr["decided"]:
        tally = {}
    tr["tally"] = [{"key": list(k), "count": c} for k, c in sorted(tally.items())]
    return tr


def run_marginal_freq(case):
    import gcmpy
    from gcmpy import JointDegreeNames as JN
    n = case["n_samples"]
    p, F = _marginal_params(case, {JN.USE_SAMPLING: True, JN.N_SAMPLES: n})
    tr = _base("marginal_freq", case)
    tr.update({"draws_known": False, "draws": []})
    cls = gcmpy.JointDegreeMarginal
    orig = cls.__dict__.get("draw_from_analytical_joint")
    cap = {}
    if orig is not None:
        def wrapper(self, *a, **k):
            r = orig(self, *a, **k)
            cap["draws"] = [tuple(x) for x in r]
            return r
        cls.draw_from_analytical_joint = wrapper
    try:
        if case.get("via") == "entry":
            obj = Oracle().run_seeded(case["seed"], lambda: gcmpy.JointDegreeDistribution.load_joint_degree({**p, JN.JOINT_DEGREE_TYPE: "marginal"}))
        else:
            obj = Oracle().run_seeded(case["seed"], lambda: cls(dict(p)))
        tr["first"] = _table(obj.jdd, lambda key: n)
    except Exception as ex:
        tr["raised"] = "%s: %s" % (type(ex).__name__, str(ex)[:70])
    finally:
        if orig is not None:
            cls.draw_from_analytical_joint = orig
    if "draws" in cap:
        tr["draws_known"] = True
        tr["draws"] = [[int(v) for v in d] for d in cap["draws"]]
    return tr


# --------------------------------------------------------------------------- C07
def _splits(k, T):
    if T == 1:
        return [[k]]
    out = []
    for i in range(0, k // T + 1):
        for row in _splits(k - i * T, T - 1):
            out.append(row + [i])
    return out


def run_split(case):
    """case: a (ints), b, f (absolute list f[k-1], k>=1), F, lo, hi, target, delta"""
    import gcmpy
    from gcmpy import JointDegreeNames as JN
    a, b, lo, hi, tgt, delta = case["a"], case["b"], case["lo"], case["hi"], case["target"], case["delta"]
    T = len(a)
    fabs, Fden = case["f"], case["F"]
    frel = [fabs[k - 1] for k in range(lo, hi)]
    SumF = sum(frel)
    tot = lambda s: sum((i + 1) * s[i] for i in range(len(s)))
    wt = lambda s: math.prod(a[i] ** ((i + 1) * s[i]) for i in range(len(s)))
    sumw = {k: sum(wt(s) for s in _splits(k, T)) for k in range(0, hi + 2)}

    def den_of(key):
        k = tot(key)
        if len(key) != T or k not in sumw:
            return 1
        return SumF * sumw[k] if (not delta or k == tgt) else SumF
    tr = _base("delta" if delta else "split", case)
    tr.update({"a": a, "lo": lo, "hi": hi, "target": tgt, "delta": delta, "f": frel, "steps": [], "sum_ok": True})
    p = {JN.FP: _faulty(lambda k: fabs[k - 1] / Fden), JN.PROBS: [x / b for x in a], JN.MOTIF_SIZES: list(range(2, T + 2)),
         JN.LOW_HIGH_DEGREE_BOUND: (lo, hi)}
    if delta:
        p[JN.TARGET_K] = tgt
    cls = gcmpy.JointDegreeDelta if delta else gcmpy.JointDegreeSplitDegree
    base = gcmpy.JointDegreeSplitDegree
    orig = base.__dict__.get("resolve_degree")
    steps = []
    if orig is not None:
        def wrapper(self, *args, **kw):
            r = orig(self, *args, **kw)
            try:
                steps.append(sorted([int(v) for v in key] for key in self._jdd))
            except Exception:
                pass
            return r
        base.resolve_degree = wrapper
    try:
        obj = _history(tr, lambda: cls(dict(p)),
                       lambda: gcmpy.JointDegreeDistribution.load_joint_degree(
                           {**p, JN.JOINT_DEGREE_TYPE: "delta" if delta else "split_degree"}), den_of,
                       on_pre_done=lambda: steps.__delitem__(slice(None)))
        tr["steps"] = steps[:hi - lo] if not delta else steps[:1]
        if obj is not None:
            tr["sum_ok"] = abs(sum(obj.jdd.values()) - 1.0) < 1e-9
    finally:
        if orig is not None:
            base.resolve_degree = orig
    return tr


# --------------------------------------------------------------------------- C08
def run_cover(case):
    import gcmpy
    from gcmpy import JointDegreeNames as JN, GCMAlgorithmNames as GN
    cover = [list(c) for c in case["cover"]]
    verts = sorted({v for c in cover for v in c})
    tr = _base("cover", case)
    tr.update({"cover": cover, "motif_sizes": [], "compose_raised": "", "compose_counts": [], "compose_colsum": []})
    p = {JN.COVER: cover}
    obj = _history(tr, lambda: gcmpy.JointDegreeCover(dict(p)),
                   lambda: gcmpy.JointDegreeDistribution.load_joint_degree({**p, JN.JOINT_DEGREE_TYPE: "cover"}),
                   lambda key: len(verts))
    if obj is None:
        return tr
    if case.get("reject"):
        # crash point: a malformed candidate cover goes in through the setter, create_jdd raises, the caller puts the previous
        # cover back and keeps the loader (Loaders!TryCandidate / CreateJdd raises / Restore): everything it reports is as before
        base = min(verts)
        bad = {1: [[base, base + 1, base + 2], [base + 2, base + 3], [base + 3, base + 40]],      # a typo in a vertex id
               2: [],                                                                              # no cliques at all
               3: [list(range(base + 1, base + 7)), [base + 6, base + 7, base + 9]]}[case["reject"]]   # larger cliques, id gap
        try:
            previous = obj.cover
            obj.cover = bad
            try:
                obj.create_jdd()
                obj.cover = previous          # accepted after all: nothing to say about an illegal cover; rebuild the legal one
                obj.create_jdd()
            except Exception:
                obj.cover = previous
                tr["rejected"] = True
            tr["first"] = _table(obj.jdd, lambda key: len(verts))
        except Exception as ex:
            tr["raised"] = "%s: %s" % (type(ex).__name__, str(ex)[:70])
            return tr
    try:
        tr["motif_sizes"] = [int(s) for s in obj.motif_sizes]
    except Exception:
        tr["motif_sizes"] = [-1]
    # composition: sample |V| joint degrees and generate with clique motifs of the reported sizes
    try:
        sizes = list(obj.motif_sizes)
        counts = [0] * len(sizes)
        builds = []
        for j, s in enumerate(sizes):
            def b(vs, j=j):
                counts[j] += 1
                return gcmpy.clique_motif(vs)
            builds.append(b)

        ncomp = case.get("compose_n") or len(verts)      # also samples much smaller than the largest clique

        def go():
            jds = obj.sample_jds_from_jdd(ncomp)
            gcmpy.GCMAlgorithmFast({GN.MOTIF_SIZES: sizes, GN.BUILD_FUNCTIONS: builds,
                                    GN.EDGE_NAMES: ["%d-clique" % s for s in sizes]}).random_clustered_graph(jds)
            return jds
        jds = Oracle().run_seeded(case.get("seed", 1), go)
        tr["compose_counts"] = counts
        tr["compose_colsum"] = [sum(j[i] for j in jds) for i in range(len(sizes))]
    except Exception as ex:
        tr["compose_raised"] = "%s: %s" % (type(ex).__name__, str(ex)[:60])
        tr["compose_counts"] = [0] * len(tr["motif_sizes"])
        tr["compose_colsum"] = [0] * len(tr["motif_sizes"])
    return tr


RUNNERS = {"manual": run_manual, "empirical": run_empirical, "function": run_function, "marginal": run_marginal,
           "marginal_sample1": run_marginal_sample1, "marginal_freq": run_marginal_freq, "split": run_split,
           "delta": run_split, "cover": run_cover}


def _execute(case):
    return RUNNERS[case["kind"]](case)


from ..history import with_prior
execute = with_prior(_execute, _HELD, lambda tr: tr.get("earlier_changed"), depth=3)


def key_fn(tr, v):
    return "%s/%s" % (tr["kind"], v["v"].split(":", 1)[-1])


def judge(chk, traces, label):
    B = 5000
    for i in range(0, len(traces), B):
        chk.judge("LoadersTrace", "LoadersTrace.cfg", traces[i:i + B], label="%s %d" % (label, i // B), key_fn=key_fn)


def split_cases_from_tlc(chk, big=False):
    out = os.path.join(chk.scratch, "split_cases.json")
    r = tlc.run("LoadersCases", "LoadersCases_big.cfg" if big else "LoadersCases.cfg", env={"OUT_FILE": out}, heap="8g")
    cs = []
    for p in json.load(open(out)):
        cs.append({"kind": "delta" if p["delta"] else "split", "a": p["a"], "b": max(p["a"]) + 1, "f": p["f"], "F": max(1, sum(p["f"])),
                   "lo": p["lo"], "hi": p["hi"], "target": p["target"], "delta": p["delta"], "src": "tlc"})
    return cs
