"""C09 - EECC returns an edge-disjoint edge clique cover within the size bound.
Spec: EECC.tla (MC incl. liveness + pinned de-duplication deviation), EECCTrace.tla (JUDGE)."""
import itertools
import random as _r

from ..core import watchdog, Timeout
from ..oracle import Oracle, OracleMismatch


def execute(case):
    """case: edges [[a,b]..], m0, rng: ('seed', s) | ('open', prefix) | ('plan', p)"""
    import gcmpy
    edges = [tuple(e) for e in case["edges"]]
    tr = {"case": case, "edges": [list(e) for e in edges], "m0": case["m0"], "cover": [], "has_edges_after": False,
          "raised": "", "timeout": False, "steps_known": False, "steps": [], "arities": [], "cover_again": [],
          "check_isolated": len({v for e in edges for v in e}) <= 12}
    g = gcmpy.EECC()
    order = case.get("order", "edges_first")        # the size bound may be set before, after or in the middle of loading the edges
    feed = case.get("feed", "add_edge")
    if order == "bound_first" or (order in ("bound_midway", "bound_early") and feed != "add_edge"):
        g.set_max_clique_size(case["m0"])
    if feed == "add_edges_from":          # the bulk loader of the Network base class, with the documented list of tuples
        g.add_edges_from(list(edges))
    elif feed == "graph":                 # a ready-made networkx graph handed over through the G property
        import networkx as nx
        H = nx.Graph()
        H.add_edges_from(edges)
        g.G = H
    else:
        for n_, e in enumerate(edges):
            if (order == "bound_midway" and n_ == len(edges) // 2) or (order == "bound_early" and n_ == min(1, len(edges) - 1)):
                g.set_max_clique_size(case["m0"])        # (bound_early: after the very first edge, when the graph has two vertices)
            g.add_edge(e)
    pre = case.get("pre")
    if pre:
        # history: the same EECC object already produced a cover under another size bound; its edges are added again
        try:
            g.set_max_clique_size(pre["m0"])
            if pre.get("only_list"):
                g.limited_maximal_cliques()
            elif pre.get("abort") is not None:
                # crash point: that earlier run was abandoned part-way; the caller adds the same edges again and starts over
                from ..crash import count_lines, abort_at
                import copy as _copy
                g2 = _copy.deepcopy(g)
                total = Oracle().run_seeded(pre.get("seed", 3), lambda: count_lines(g2.get_EECC))
                out = Oracle().run_seeded(pre.get("seed", 3), lambda: abort_at(g.get_EECC, max(1, int(pre["abort"] * total))))
                tr["pre_abort_outcome"] = out
                for e in edges:
                    g.add_edge(e)
            else:
                Oracle().run_seeded(pre.get("seed", 3), g.get_EECC)
                for e in edges:
                    g.add_edge(e)
        except Exception:
            pass
    if order == "edges_first" or pre:
        g.set_max_clique_size(case["m0"])
    steps = []
    orig = getattr(g, "compute_scores", None)
    small = len({v for e in edges for v in e}) <= 8
    if callable(orig) and small:
        def wrapper(C, EC, *a, **k):
            try:
                steps.append({"edges": [[int(x), int(y)] for x, y in g.G.edges()], "ec": [[int(v) for v in c] for c in EC]})
            except Exception:
                pass
            return orig(C, EC, *a, **k)
        g.compute_scores = wrapper
    orc = Oracle()
    try:
        with watchdog(case.get("watchdog", 60)):
            if case["rng"][0] == "seed":
                cover = orc.run_seeded(case["rng"][1], g.get_EECC)
            elif case["rng"][0] == "open":
                cover = orc.run_open(case["rng"][1], g.get_EECC)
            else:
                cover = orc.run_directed(case["rng"][1], g.get_EECC)
    except Timeout:
        tr["timeout"] = True
        return tr
    except OracleMismatch:
        raise
    except Exception as ex:
        tr["raised"] = "%s: %s" % (type(ex).__name__, str(ex)[:70])
        return tr
    tr["trail"] = [list(t) for t in orc.trail] if case["rng"][0] != "seed" else []
    try:
        tr["cover"] = [[int(v) for v in c] for c in cover]
    except Exception:
        tr["raised"] = "cover is not a list of vertex lists"
        return tr
    tr["has_edges_after"] = bool(g.has_edges())
    tr["cover_again"] = tr["cover"]
    if case["rng"][0] == "seed":
        # the returned cover belongs to the caller: covering the same edges once more on the same object must not change it
        try:
            for e in edges:
                g.add_edge(e)
            Oracle().run_seeded(case["rng"][1] + 1, g.get_EECC)
            tr["cover_again"] = [[int(v) for v in c] for c in cover]
        except Exception:
            pass
    if steps and small and all(s["ec"] for s in steps[1:]):
        tr["steps_known"] = True
        tr["steps"] = steps
        tr["arities"] = [t[1] for t in orc.trail if t[0] == "b"]
    return tr


def leaves(base, max_leaves=None):
    prefix, n = [], 0
    while prefix is not None:
        tr = execute(dict(base, rng=("open", prefix)))
        trail = tr.pop("trail", [])
        tr["case"] = dict(base, rng=("plan", [t[2] for t in trail]))
        yield tr
        n += 1
        if max_leaves and n >= max_leaves:
            return
        prefix = Oracle.next_prefix(trail)


def all_graphs(n):
    """every labelled graph on vertices 1..n without isolated vertices"""
    pairs = list(itertools.combinations(range(1, n + 1), 2))
    for mask in range(1, 1 << len(pairs)):
        es = [pairs[i] for i in range(len(pairs)) if mask >> i & 1]
        if len({v for e in es for v in e}) == n:
            yield es


def _key(tr, v):
    return "m0=%d/%s" % (tr["m0"], v["v"].split(":", 1)[-1])


def run(chk):
    thorough = chk.tier == "thorough"
    req = ["Start", "Pick", "Finish"]
    r = chk.mc("EECC", "MC_EECC_6.cfg" if thorough else "MC_EECC_5.cfg", required=req, timeout=7200)
    chk.mc("EECC", "MC_EECC.cfg", required=req + ["CoverAgain"])       # <= 4 vertices, object reused under another bound
    chk.mc("EECC", "MC_EECC_live.cfg", required=req)
    chk.mc("EECC", "MC_EECC_pinned.cfg", expect_violation="C09_Disjoint")
    rng = _r.Random(chk.seed)
    traces = []
    und = 0
    # (i) every tie-break sequence for every graph on <= 5 (thorough: + sampled 6) vertices, m0 = 2..5
    ng = 0
    for n in (2, 3, 4, 5) + ((6,) if thorough else ()):
        for es in all_graphs(n):
            if n == 6 and ng % 11:
                ng += 1
                continue
            ng += 1
            for m0 in (2, 3, 4, 5):
                if m0 > n + 1:
                    continue
                try:
                    for tr in leaves({"edges": es, "m0": m0}, max_leaves=64):
                        traces.append(tr); chk.rng_leaves += 1
                except OracleMismatch:
                    und += 1
                    traces.append(execute({"edges": es, "m0": m0, "rng": ("seed", 1)}))
    chk.exhaustive["every tie-break sequence (<= 64 per input) for every graph without isolated vertices on <= 5 vertices, m0 in 2..5"
                   + ("; every 11th graph on 6 vertices" if thorough else "")] = und == 0
    # (i') one object used twice: a cover (or just the clique list) under another bound first
    for n in (4, 5):
        for gi, es in enumerate(all_graphs(n)):
            if gi % (7 if n == 5 else 2):
                continue
            for m0a, m0b in ((4, 2), (3, 2), (2, 3), (5, 3), (4, 3)):
                traces.append(execute({"edges": es, "m0": m0b, "rng": ("seed", rng.randrange(1 << 30)),
                                       "pre": {"m0": m0a, "seed": rng.randrange(1 << 30), "only_list": (gi + m0a) % 2 == 0}}))
    # crash points: the earlier run on the same object was abandoned part-way, the caller adds the edges again and starts over
    for n in (4, 5, 6):
        for rep in range(50 if not thorough else 500):
            es = [e for e in itertools.combinations(range(1, n + 1), 2) if rng.random() < rng.choice([0.6, 0.85, 1.0])]
            if es:
                m0 = rng.choice([2, 3, 4, 5])
                traces.append(execute({"edges": es, "m0": m0, "rng": ("seed", rng.randrange(1 << 30)),
                                       "pre": {"m0": rng.choice([m0, m0, 3]), "seed": rng.randrange(1 << 30), "abort": rng.choice([0.1, 0.3, 0.5, 0.7, 0.9])}}))
    chk.extra["covers_judged_after_an_abandoned_run_on_the_same_object"] = sum(1 for t in traces if t.get("pre_abort_outcome") == "aborted")
    # (ii) the repo's fixture, overlapping K5/K6 unions, G(n,p)
    fixture = [(1, 2), (1, 14), (2, 4), (2, 13), (2, 14), (3, 4), (3, 5), (4, 5), (4, 13), (4, 14), (6, 7), (6, 13), (7, 8), (7, 13),
               (8, 9), (8, 13), (9, 10), (9, 11), (9, 13), (10, 11), (11, 12), (12, 13), (13, 14)]
    for m0 in (2, 3, 4, 6):
        for s in range(3):
            traces.append(execute({"edges": fixture, "m0": m0, "rng": ("seed", rng.randrange(1 << 30)), "feed": ["add_edge", "add_edges_from", "graph"][len(traces) % 3]}))
    def union_of_cliques(parts):
        es = set()
        for p in parts:
            es |= {tuple(sorted(e)) for e in itertools.combinations(p, 2)}
        return sorted(es)
    for parts in ([range(0, 5), range(3, 8)], [range(0, 6), range(4, 10)], [range(0, 5), range(2, 7), range(4, 9)],
                  [range(0, 4), range(1, 5), range(2, 6)], [range(0, 6), [0, 1, 6, 7], [2, 3, 8, 9]]):
        for m0 in (2, 3, 4, 5, 6):
            traces.append(execute({"edges": union_of_cliques([list(p) for p in parts]), "m0": m0,
                                   "rng": ("seed", rng.randrange(1 << 30)), "order": ["edges_first", "bound_first", "bound_midway"][len(traces) % 3]}))
    # isolated small cliques next to a path: the size bound given before / while the edges are loaded
    for order in ("bound_first", "bound_midway", "edges_first", "bound_early"):
        for m0 in (3, 4, 5):
            es = union_of_cliques([list(range(0, m0))]) + [(10, 11), (11, 12), (12, 13)]
            traces.append(execute({"edges": es, "m0": m0, "rng": ("seed", rng.randrange(1 << 30)), "order": order}))
    # two very large cliques sharing one edge (scores of order 1e-5: a tolerance instead of == 0 goes wrong from 448 vertices on)
    big = 450
    if thorough:        # (one such trace costs the TLC judge about 20 minutes: thorough tier only)
        traces.append(execute({"edges": union_of_cliques([list(range(big)), [big - 2, big - 1] + list(range(big, 2 * big - 2))]), "m0": big,
                               "rng": ("seed", 5), "feed": "add_edges_from", "watchdog": 300}))
    for i in range(3000 if thorough else 600):
        n = rng.randrange(6, 13)
        p = rng.choice([0.3, 0.5, 0.7])
        es = [(a, b) for a, b in itertools.combinations(range(n), 2) if rng.random() < p]
        if not es:
            continue
        traces.append(execute({"edges": es, "m0": rng.choice([2, 2, 3, 4, 6]), "rng": ("seed", rng.randrange(1 << 30)), "watchdog": 120, "feed": ["add_edge", "add_edges_from", "graph"][i % 3],
                               "order": ["edges_first", "bound_early", "bound_first", "bound_midway"][i % 4]}))
    for t in traces:
        t.pop("trail", None)
    if und:
        chk.not_decided.append("all tie-breaks: oracle not attached for %d inputs" % und)
    stepped = [t for t in traces if t["steps_known"] and len(t["steps"]) > 1]
    if not stepped:
        chk.not_decided.append("step-level candidate check: compute_scores wrapper did not attach (input/output clauses still judged)")
    chk.add_sample(stepped[0] if stepped else traces[0]); chk.add_sample(traces[-1])
    chk.nontrivial = len({str(t["edges"]) + str(t["m0"]) + str(t["cover"]) for t in traces if any(len(c) > 2 for c in t["cover"])})
    B = 3000
    for i in range(0, len(traces), B):
        chk.judge("EECCTrace", "EECCTrace.cfg", traces[i:i + B], label="batch %d" % (i // B), key_fn=_key, heap="8g")
    chk.extra["rule"] = "one case = (graph, m0, tie-break resolution); non-trivial = the cover contains a clique of 3+ vertices; distinct by (graph, m0, cover)"
    chk.assumptions += ["graphs are built from edges (no isolated vertices); tie-breaks go through random.choice of the global instance"]


def replay(chk, data):
    tr = execute(data["trace"]["case"]); tr.pop("trail", None)
    chk.judge("EECCTrace", "EECCTrace.cfg", [tr], label="replay", key_fn=_key)
