"""C03 - stub matching is uniformly random (configuration-model measure).
Exact: the real generator is walked through every leaf of its RNG decision tree and the
distribution of stub arrangements is judged by TLC (StubMatchingDist.tla)."""
import random as _r
from fractions import Fraction

from . import stub
from ..oracle import OracleMismatch


def tally(base_case, max_leaves=200000):
    out = {}
    total = Fraction(0)
    n = 0
    try:
        for rec, w in stub.enumerate_leaves(base_case, max_leaves=max_leaves):
            n += 1
            if rec["raised"]:
                return {"decided": False, "why": "raised " + rec["raised"], "leaves": n}
            key = tuple(tuple(a) for a in stub.arrangement(rec))
            out[key] = out.get(key, Fraction(0)) + w
            total += w
    except OracleMismatch as ex:
        return {"decided": False, "why": "oracle: %s" % ex, "leaves": n}
    if n >= max_leaves:
        return {"decided": False, "why": "tree larger than %d leaves" % max_leaves, "leaves": n}
    if n == 1 and not rec.get("trail"):
        # the oracle saw no draw at all.  Either the shuffle is gone (a genuine violation: one deterministic placement) or the
        # randomness no longer comes from the random module (then the distribution is not enumerable: not decided, never an alarm)
        seen = set()
        for s in range(8):
            r2 = stub.execute(dict(base_case, rng=("none", s)))
            seen.add(str(stub.arrangement(r2)))
        from ..oracle import other_rng_used
        if len(seen) > 1 or other_rng_used(lambda: stub.execute(dict(base_case, rng=("none", 0)))):
            return {"decided": False, "why": "outputs vary although no draw reached the random module (other RNG)", "leaves": n}
    return {"decided": True, "leaves": n, "weights_sum_to_one": total == 1,
            "outcomes": [{"arr": [list(a) for a in k], "num": v.numerator, "den": v.denominator} for k, v in sorted(out.items())]}


def make_trace(case):
    t = tally(case)
    tr = {"case": case, "N": len(case["jds"]), "jds": [list(j) for j in case["jds"]],
          "decided": t["decided"], "leaves": t["leaves"], "why": t.get("why", ""),
          "weights_sum_to_one": t.get("weights_sum_to_one", True), "outcomes": t.get("outcomes", [])}
    return tr


def cases(chk):
    thorough = chk.tier == "thorough"
    cs = []
    for cname in stub.MC_MIRROR:
        gen = "motifs" if stub.CONFIGS[cname]["custom"] else "fast"
        fam = stub.consistent_family(cname, 3, 2, 4)
        if cname == "c_hub_tri" and not thorough:
            fam = fam[::9]
        for jds in fam:
            cs.append({"gen": gen, "via": "direct", "cfg": cname, "jds": jds})
    # the statement's example: four degree-1 vertices, and every multiplicity pattern up to 6 stubs
    pats = [[1, 1, 1, 1], [2, 1, 1], [2, 2], [3, 1], [1, 1, 1, 1, 1, 1], [2, 2, 2], [3, 2, 1], [2, 1, 1, 1, 1], [4, 2],
            [3, 3], [2, 2, 1, 1], [6], [5, 1], [4, 1, 1], [3, 1, 1, 1]]
    for p in pats:
        for gen, cname in (("fast", "f_edge"), ("network", "f_edge"), ("motifs", "c_bare")):
            cs.append({"gen": gen, "via": "direct", "cfg": cname, "jds": [(d,) for d in p]})
        if sum(p) % 3 == 0:
            cs.append({"gen": "fast", "via": "main", "cfg": "f_tri", "jds": [(d,) for d in p]})
            cs.append({"gen": "motifs", "via": "direct", "cfg": "c_path", "jds": [(d,) for d in p]})
    # histories: the exact law must also hold for the second graph produced by one generator object (same sequence again)
    for p in ([1, 1, 1, 1], [2, 1, 1], [2, 2]):
        for gen, cname in (("fast", "f_edge"), ("motifs", "c_bare"), ("network", "f_edge")):
            cs.append({"gen": gen, "via": "direct", "cfg": cname, "jds": [(d,) for d in p], "pre_jds": [(d,) for d in p], "pre_seed": 11})
    cs.append({"gen": "fast", "via": "direct", "cfg": "f_edge_tri", "jds": [(1, 1), (1, 1), (1, 1), (1, 0)],
               "pre_jds": [(1, 1), (1, 1), (1, 1), (1, 0)], "pre_seed": 5})
    cs.append({"gen": "fast", "via": "main", "cfg": "f_edge_tri", "jds": [(2, 2), (1, 1), (1, 0)], "pre_jds": [(1, 1), (1, 1), (0, 1)], "pre_seed": 5})
    # ... for a second graph after the caller edited ITS list of joint degrees in place between the two calls (another sequence,
    # also of another length), and after an earlier call that was aborted by a raising build callback
    for pre, p in (([1, 1, 1, 1], [1, 1, 1, 1, 1, 1]), ([2, 2], [1, 1, 1, 1]), ([1, 1, 1, 1, 1, 1], [2, 1, 1]), ([1, 1], [2, 2])):
        for gen, cname in (("fast", "f_edge"), ("motifs", "c_bare"), ("network", "f_edge")):
            cs.append({"gen": gen, "via": "direct", "cfg": cname, "jds": [(d,) for d in p], "pre_jds": [(d,) for d in pre], "pre_seed": 13,
                       "pre_same_list": True})
            cs.append({"gen": gen, "via": "direct", "cfg": cname, "jds": [(d,) for d in p], "pre_jds": [(d,) for d in pre], "pre_seed": 17,
                       "pre_fault": 2})
    # two-topology products: independence across topologies (joint table is a product)
    cs.append({"gen": "fast", "via": "direct", "cfg": "f_edge_tri", "jds": [(1, 1), (1, 1), (1, 1), (1, 0)]})
    cs.append({"gen": "fast", "via": "direct", "cfg": "f_edge_tri", "jds": [(2, 1), (1, 2), (1, 0)]})
    cs.append({"gen": "motifs", "via": "direct", "cfg": "c_bare_tri", "jds": [(2, 1), (1, 2), (1, 0)]})
    cs.append({"gen": "motifs", "via": "main", "cfg": "c_hub", "jds": [(1, 1), (1, 1), (0, 2)]})
    if thorough:
        cs.append({"gen": "fast", "via": "direct", "cfg": "f_edge_tri", "jds": [(1, 1), (1, 1), (1, 1), (1, 0), (0, 1), (0, 1), (0, 1)]})
        cs.append({"gen": "network", "via": "main", "cfg": "f_edge_tri", "jds": [(2, 1), (1, 1), (1, 1), (0, 2), (0, 1)]})
        for cname in stub.MC_MIRROR:
            gen = "motifs" if stub.CONFIGS[cname]["custom"] else "fast"
            fam = stub.consistent_family(cname, 4, 2, 5)
            _r.Random(chk.seed).shuffle(fam)
            for jds in fam[:250]:
                cs.append({"gen": gen, "via": "direct", "cfg": cname, "jds": jds})
        for p in ([1] * 7, [2, 2, 2, 1], [3, 2, 1, 1], [1] * 8):
            cs.append({"gen": "fast", "via": "direct", "cfg": "f_edge" if sum(p) % 2 == 0 else "f_single_path",
                       "jds": [(d,) for d in p] if sum(p) % 2 == 0 else [(d, 0) for d in p]})
    return cs


def _key(tr, v):
    c = tr["case"]
    return "%s/%s/%s" % (c["gen"], c["cfg"] if isinstance(c["cfg"], str) else "inline", v["v"].split(":", 1)[-1])


def run(chk):
    chk.mc("MC_StubMatching", "MC_StubMatching.cfg", required=["Shuffle", "Partition", "Emit"])
    r = chk.mc("FisherYates", "FisherYates.cfg", required=["Step"])
    traces = [make_trace(c) for c in cases(chk)]
    chk.rng_leaves = sum(t["leaves"] for t in traces)
    und = [t for t in traces if not t["decided"]]
    if und:
        chk.not_decided.append("distribution not enumerable for %d inputs (e.g. %s)" % (len(und), und[0]["why"]))
    chk.exhaustive["every RNG leaf for every (configuration, jds) of the MC family N=3 and all multiplicity patterns up to 6 stubs"] = not und
    four = [t for t in traces if t["jds"] == [[1], [1], [1], [1]] and t["decided"]]
    chk.add_sample({"kind": "exact distribution", "case": four[0]["case"], "leaves": four[0]["leaves"], "outcomes": four[0]["outcomes"][:4]})
    chk.judge("StubMatchingDist", "StubMatchingDist.cfg", traces, label="distributions", key_fn=_key)
    chk.nontrivial = len([t for t in traces if t["decided"] and len(t["outcomes"]) > 1])
    chk.extra["rule"] = "one case = the complete RNG decision tree of one (generator, configuration, jds); non-trivial = more than one reachable arrangement"
    chk.assumptions += ["uniformity for sequences too large to enumerate rests on the symmetry argument only (DESIGN.md C03)",
                        "the generator draws through random._inst._randbelow / random(); otherwise the clause is reported not decided"]


def replay(chk, data):
    chk.judge("StubMatchingDist", "StubMatchingDist.cfg", [make_trace(data["trace"]["case"])], label="replay", key_fn=_key)
