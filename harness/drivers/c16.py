"""C16 - closed-form clique and cycle equations and their graph counts are exact."""
import itertools
import random as _r

from . import perc as P


def run(chk):
    thorough = chk.tier == "thorough"
    chk.mc("MC_Percolation", "MC_Percolation.cfg", required=["Decide", "Eval"])
    rng = _r.Random(chk.seed)
    traces = []
    for tau in range(2, 7):
        traces.append(P.run_clique(tau))
    # neighbour values that are numbers, chosen so that elementary symmetric sums of them vanish exactly (1 - 1, 2 - 1 - 1, ...)
    for tau, one, two, neg in ((3, [1], [], [2]), (4, [], [1], [2, 3]), (4, [1], [], [2]), (5, [1, 2], [], [3, 4]), (5, [1], [], [2]),
                               (5, [], [1], [2, 3]), (4, [1, 2, 3], [], []), (5, [], [], [1, 2, 3, 4])) + (((6, [1, 2], [], [3, 4]), (6, [1], [2], [3, 4, 5])) if thorough else ()):
        traces.append(P.run_clique(tau, one, two, neg))
    for n in range(3, 13 if thorough else 10):
        traces.append(P.run_cycle(n))
    for n in range(1, 7):
        for k in range(0, n * (n - 1) // 2 + 1):
            traces.append(P.run_count(n, k, with_qq=n >= 2))
    for n in range(1, 13):
        for k in range(0, n * (n - 1) // 2 + 1):
            traces.append(P.run_countmod(n, k))
    # crash points: a count abandoned part-way (Ctrl-C on the slow brute force), then every count of that size again
    from .. import crash
    import gcmpy
    crash.mc(chk)
    n_ab = 0

    def forget():
        # the counters memoise their results (functools.lru_cache): start from an empty memo where that is possible, so that the
        # abandoned call and the judged calls do real work (an implementation without cache_clear is simply exercised less)
        for f in (gcmpy.Q, gcmpy.QQ):
            if hasattr(f, "cache_clear"):
                f.cache_clear()
    for n in range(3, 7):
        for fn, kk in ((gcmpy.QQ, n), (gcmpy.QQ, n * (n - 1) // 2 - 1), (gcmpy.Q, n)):
            for frac in (0.2, 0.5, 0.85):
                forget()
                total = crash.count_lines(lambda: fn(n, kk))
                forget()
                out = crash.abort_at(lambda: fn(n, kk), max(1, int(frac * total)))
                n_ab += out == "aborted"
                forget()
                for k in range(0, n * (n - 1) // 2 + 1):
                    traces.append(P.run_count(n, k, with_qq=True))
    chk.extra["counts_judged_after_an_abandoned_count"] = n_ab
    chk.exhaustive["Q and QQ against brute force for all n <= 6, all k; Q modulo five primes for all n <= 12, all k"] = True
    # connected-subgraph counter: every graph on <= 4 vertices, every vertex subset containing the focal vertex, every k
    for n in (2, 3, 4) + ((5,) if thorough else ()):
        V = list(range(n))
        pairs = list(itertools.combinations(V, 2))
        for mask in range(1, 1 << len(pairs)):
            if n == 5 and mask % 3:
                continue
            E = [list(pairs[i]) for i in range(len(pairs)) if mask >> i & 1]
            for r in range(1, n + 1):
                for A in itertools.combinations(V, r):
                    ind = [e for e in E if e[0] in A and e[1] in A]
                    for k in range(0, len(ind) + 1):
                        # different substrates may carry the same name (every 4-vertex motif of a cover can be called "4-motif")
                        traces.append(P.run_ncg({"V": V, "E": E, "A": list(A), "focal": A[0], "k": k, "gname": "%d-motif" % n if mask % 2 else ""}))
    for i in range(4000 if thorough else 60):
        n = rng.choice([5, 6])
        V = list(range(n))
        E = [list(e) for e in itertools.combinations(V, 2) if rng.random() < rng.choice([0.35, 0.6, 0.8])]
        A = rng.sample(V, rng.randrange(2, n + 1))
        ind = [e for e in E if e[0] in A and e[1] in A]
        if len(ind) <= 9:
            traces.append(P.run_ncg({"V": V, "E": E, "A": sorted(A), "focal": rng.choice(A), "k": rng.randrange(0, len(ind) + 1),
                                     "gname": rng.choice(["", "motif", "0-1"])}))
    # structured substrates with narrow cuts (edge connectivity below the minimum degree): two dense blobs joined by few edges
    def blobs(a, b, bridges):
        A = list(range(a)); B = list(range(a, a + b))
        E = [list(e) for e in itertools.combinations(A, 2)] + [list(e) for e in itertools.combinations(B, 2)]
        E += [[A[i % a], B[i % b]] for i in range(bridges)]
        return A + B, E
    for a, b, br in ((3, 3, 1), (3, 3, 2), (4, 3, 1), (4, 4, 1), (4, 4, 2), (3, 4, 2), (5, 3, 1)) if not thorough else \
            ((3, 3, 1), (3, 3, 2), (4, 3, 1), (4, 4, 1), (4, 4, 2), (3, 4, 2), (5, 3, 1), (5, 4, 1), (4, 4, 3), (5, 3, 2)):
        V, E = blobs(a, b, br)
        if len(E) > 14:
            continue
        for k in range(0, len(E) + 1):
            traces.append(P.run_ncg({"V": V, "E": E, "A": V, "focal": V[0], "k": k}))
        sub = V[:-1]                                  # and with one vertex of the second blob left out of the subset
        ind = [e for e in E if e[0] in sub and e[1] in sub]
        for k in range(0, len(ind) + 1):
            traces.append(P.run_ncg({"V": V, "E": E, "A": sub, "focal": sub[-1], "k": k}))
    for n in (6, 7, 8):                                # cycles with a chord, paths of triangles
        V = list(range(n))
        E = [[i, (i + 1) % n] for i in range(n)] + [[0, n // 2]]
        for k in range(0, len(E) + 1):
            traces.append(P.run_ncg({"V": V, "E": E, "A": V, "focal": 1, "k": k}))
    chk.add_sample(traces[3]); chk.add_sample(next((t for t in traces if t["kind"] == "countmod" and t["n"] == 9), traces[0]))
    P.judge(chk, traces, "C16")
    chk.nontrivial = len({str(t["case"]) for t in traces})
    chk.extra["rule"] = "one case = one equation (tau or cycle length) as a polynomial, one (n,k) count, or one (graph, subset, k); all distinct"
    chk.assumptions += ["values of Q beyond the resolution of five primes below 46341 (about 2^77) are not distinguished for n > 6"]


def replay(chk, data):
    c = data["trace"]["case"]
    k = c.get("kind")
    tr = (P.run_clique(c["tau"], c.get("one_u", ()), c.get("two_u", ()), c.get("neg_u", ())) if k == "clique" else P.run_cycle(c["n"]) if k == "cycle" else
          P.run_count(c["n"], c["k"], c.get("with_qq", True)) if k == "count" else P.run_countmod(c["n"], c["k"]) if k == "countmod" else P.run_ncg(c))
    P.judge(chk, [tr], "replay", parallel=1)
