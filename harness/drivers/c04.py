"""C04 - edge list <-> network conversion loses nothing.
Spec: Conversion.tla (MC + pinned deviation), ConversionCases.tla (CASES), ConversionTrace.tla (JUDGE)."""
import os
import json
import random as _r

from .. import tlc
from . import stub


def _isint(x):
    """an integer of any kind (Python or numpy), but not a bool"""
    import numbers
    return isinstance(x, numbers.Integral) and not isinstance(x, bool)



def _proj(G):
    from gcmpy import NetworkNames as NN
    nodes = list(G.nodes())
    return {"nodes": [int(n) if _isint(n) else -1 for n in nodes],
            "jd": [[int(x) for x in G.nodes[n][NN.JOINT_DEGREE]] if NN.JOINT_DEGREE in G.nodes[n] else [-1] for n in nodes],
            "edges": [{"a": int(a), "b": int(b), "top": str(G.edges[a, b].get(NN.TOPOLOGY, "?")),
                       "mid": int(G.edges[a, b].get(NN.MOTIF_IDS, -1))} for a, b in G.edges()]}


EMPTY_G = {"nodes": [], "jd": [], "edges": []}
_HELD = {}      # results of the previous case, kept alive: a later conversion must not change an earlier result


def _proj_el(el2):
    par = len(el2.edge_list) == len(el2.topologies) == len(el2.motif_id)
    rows = []
    if par:
        for e, t, m in zip(el2.edge_list, el2.topologies, el2.motif_id):
            rows.append({"a": int(e[0]), "b": int(e[1]), "top": str(t), "mid": int(m)})
    return {"jds": [[int(x) for x in j] for j in el2.joint_degrees], "rows": rows, "parallel": par}


def _execute(case):
    import gcmpy
    el = gcmpy.LightWeightEdgeList()
    el.joint_degrees = [tuple(j) for j in case["jds"]]
    el.edge_list = [(r[0], r[1]) for r in case["rows"]]
    el.topologies = [r[2] for r in case["rows"]]
    el.motif_id = [r[3] for r in case["rows"]]
    tr = {"case": case, "jds": [list(j) for j in case["jds"]],
          "rows": [{"a": r[0], "b": r[1], "top": str(r[2]), "mid": r[3]} for r in case["rows"]],
          "raised_fwd": "", "raised_back": "", "raised_again": "", "G": EMPTY_G, "G2": EMPTY_G,
          "el2": {"jds": [], "rows": [], "parallel": True},
          "held_el_before": [], "held_el_after": [], "held_g_before": [], "held_g_after": [],
          "el2_before_edit": [], "el2_after_edit": []}
    if case.get("pre_abort") is not None:
        # crash point: a conversion of this very edge-list object was abandoned part-way; the caller converts it again
        from ..crash import abort_at
        tr["pre_abort_outcome"] = abort_at(lambda: gcmpy.EdgeListToNetwork.convert(el), 1 + int(case["pre_abort"] * (12 + 3 * len(case["rows"]))))
    try:
        net = gcmpy.EdgeListToNetwork.convert(el)
        tr["G"] = _proj(net.G)
        if case.get("reuse_jds_list") and len(el.joint_degrees) > 0:
            # the caller goes on using ITS list of joint degrees for something else (same length, edited in place):
            # the network was built from what the list held at conversion time
            jl = el.joint_degrees
            for i_ in range(len(jl)):
                jl[i_] = tuple(x + 1 + i_ % 2 for x in jl[i_])
    except Exception as ex:
        tr["raised_fwd"] = type(ex).__name__
        return tr
    try:
        el2 = gcmpy.NetworkToEdgeList.convert(net)
        par = len(el2.edge_list) == len(el2.topologies) == len(el2.motif_id)
        rows = []
        if par:
            for e, t, m in zip(el2.edge_list, el2.topologies, el2.motif_id):
                rows.append({"a": int(e[0]), "b": int(e[1]), "top": str(t), "mid": int(m)})
        tr["el2"] = {"jds": [[int(x) for x in j] for j in el2.joint_degrees], "rows": rows, "parallel": par}
        # history in one process: the objects returned for the PREVIOUS case must still describe the previous case
        if "el" in _HELD:
            tr["held_el_before"] = [_HELD["el_proj"]]
            tr["held_el_after"] = [_proj_el(_HELD["el"])]
            tr["held_g_before"] = [_HELD["g_proj"]]
            tr["held_g_after"] = [_proj(_HELD["net"].G)]
        _HELD.update({"el": el2, "el_proj": _proj_el(el2), "net": net, "g_proj": _proj(net.G)})
    except Exception as ex:
        tr["raised_back"] = type(ex).__name__
        return tr
    try:
        tr["G2"] = _proj(gcmpy.EdgeListToNetwork.convert(el2).G)
    except Exception as ex:
        tr["raised_again"] = type(ex).__name__
    # the converted edge list is a value of its own: editing the network afterwards must not reach into it
    if case.get("edit_after", True) and not tr["raised_again"]:
        try:
            before = _proj_el(el2)
            es = list(net.G.edges())
            if es:
                net.G.remove_edge(*es[0])
            net.G.add_edge(len(case["jds"]) + 5, len(case["jds"]) + 6)
            tr["el2_before_edit"], tr["el2_after_edit"] = [before], [_proj_el(el2)]
            if _HELD.get("net") is net:      # the 'held' clause of the next case compares with the graph as I left it
                _HELD["g_proj"] = _proj(net.G)
        except Exception:
            pass
    return tr


def _key(tr, v):
    c = tr["case"]
    return "%s/N%d/%s" % (c.get("kind", "?"), len(c["jds"]), v["v"].split(":", 1)[-1])


from ..history import with_prior
execute = with_prior(_execute, _HELD, lambda tr: tr["held_el_before"] != tr["held_el_after"] or tr["held_g_before"] != tr["held_g_after"])


def run(chk):
    thorough = chk.tier == "thorough"
    req = ["Convert", "Back", "Again"]
    chk.mc("Conversion", "MC_Conversion.cfg", required=req)
    from .. import crash
    crash.mc(chk)
    if thorough:
        chk.mc("Conversion", "MC_Conversion_big.cfg", required=req, timeout=7200)
    chk.mc("Conversion", "MC_Conversion_pinned.cfg", expect_violation="C04_Nodes")
    out = os.path.join(chk.scratch, "cases.json")
    r = tlc.run("ConversionCases", "ConversionCases_big.cfg" if thorough else "ConversionCases.cfg",
                env={"OUT_FILE": out}, heap="8g")
    cases = [{"kind": "tlc", "jds": c["jds"], "rows": [[x["e"][0], x["e"][1], x["top"], x["mid"]] for x in c["rows"]]}
             for c in json.load(open(out))]
    chk.exhaustive["every edge list of the model family (N<=3, <=%d rows, loops, repeated pairs) replayed" % (3 if thorough else 2)] = True
    cases.append({"kind": "empty", "jds": [], "rows": []})          # N = 0: what the generators return for an empty sequence
    rng = _r.Random(chk.seed)
    # random edge lists with loops / repeats / untouched vertices, three rows and more
    for i in range(20000 if thorough else 3000):
        n = rng.choice([1, 2, 3, 4, 6, 10, 30])
        k = rng.randrange(0, 3 * n + 2)
        # topology names are arbitrary labels (strings incl. the empty one, ints incl. 0); motif ids include 0
        rows = [[rng.randrange(n), rng.randrange(n), rng.choice(["a", "b", "2-clique", "3-clique", "", 0, 1]), rng.randrange(0, k + 1)]
                for _ in range(k)]
        slots = [2, 2, 1, 3][i % 4]       # the number of joint-degree slots is independent of the number of distinct edge names
        cases.append({"kind": "random", "jds": [tuple(rng.randrange(4) for _ in range(slots)) for _ in range(n)], "rows": rows})
    # edge lists the generators really produce (30-60 % zero-degree mass)
    for i in range(400 if thorough else 80):
        cname = rng.choice(["f_edge", "f_edge_tri", "f_mix4", "f_k4_cyc5", "c_repo", "c_hub"])
        n = rng.choice([5, 20, 60, 200])
        jds = stub.random_jds(rng, cname, n, rng.choice([1, 2, 3]), zero_frac=rng.choice([0.3, 0.6]))
        gen = "motifs" if stub.CONFIGS[cname]["custom"] else "fast"
        rec = stub.execute({"gen": gen, "via": "direct", "cfg": cname, "jds": jds, "rng": ("seed", rng.randrange(1 << 30))})
        if rec["raised"] or not all(rec["pair_ok"]) or not (len(rec["edge"]) == len(rec["top"]) == len(rec["mid"])):
            continue   # C01/C02's business
        cases.append({"kind": "generator:" + cname, "jds": jds,
                      "rows": [[e[0], e[1], t, m] for e, t, m in zip(rec["edge"], rec["top"], rec["mid"])]})
    cases += [dict(c, pre_abort=rng.random()) for c in cases[1::4]] + [dict(c, reuse_jds_list=True) for c in cases[2::4]]
    traces = [execute(c) for c in cases]
    chk.add_sample(traces[len(traces) // 2])
    chk.add_sample({k: (v if k != "rows" else v[:5]) for k, v in traces[-1]["case"].items()})
    B = 8000
    for i in range(0, len(traces), B):
        chk.judge("ConversionTrace", "ConversionTrace.cfg", traces[i:i + B], label="batch %d" % (i // B), key_fn=_key, heap="8g")
    chk.nontrivial = len({json.dumps(t["case"]["rows"]) + str(len(t["jds"])) for t in traces if t["rows"]})
    chk.extra["rule"] = "one case = one edge list pushed forward, back and forward again; non-trivial = at least one row; distinct by (N, rows)"
    chk.assumptions += ["vertex ids in rows lie in 0..N-1 (what the generators produce)"]


def replay(chk, data):
    chk.judge("ConversionTrace", "ConversionTrace.cfg", [execute(data["trace"]["case"])], label="replay", key_fn=_key)
