"""C07 - split-degree and delta loaders preserve the overall degree law."""
import random as _r

from . import loaders as L


def run(chk):
    thorough = chk.tier == "thorough"
    chk.mc("Loaders", "MC_Loaders.cfg", required=["ResolveDegree", "DeleteColumn", "CreateJdd", "TryCandidate", "Restore"])
    chk.mc("Loaders", "MC_Loaders_rejectleak.cfg", expect_violation="C06_Law")   # deviation: a rejected candidate input leaves something behind
    from .. import crash
    crash.mc(chk)
    if thorough:
        chk.mc("Loaders", "MC_Loaders_big.cfg", required=["ResolveDegree"], timeout=7200)
    chk.mc("Loaders", "MC_Loaders_pinned_reset.cfg", expect_violation="C07_Accumulates")
    cs = L.split_cases_from_tlc(chk, big=thorough)      # thorough: up to 3 topologies, degrees to 5 (about 1e5 parameter sets)
    chk.exhaustive["the whole parameter family of the MC's split machine (%d cases) replayed into the real loaders" % len(cs)] = True
    rng = _r.Random(chk.seed)
    for i in range(20000 if thorough else 500):
        T = rng.choice([1, 2, 3, 4])
        lo = rng.randrange(1, 4)
        hi = lo + rng.randrange(1, 6 if T < 4 else 5)
        a = [rng.randrange(1, 4)] + [rng.randrange(0, 4) for _ in range(T - 1)]      # probabilities may be exactly 0
        f = [rng.randrange(0, 4) for _ in range(hi + 2)]
        if sum(f[k - 1] for k in range(lo, hi)) == 0:
            f[lo - 1] = 2
        delta = rng.random() < 0.5
        fa = f
        cs.append({"kind": "delta" if delta else "split", "a": a, "b": rng.choice([max(a) + 1, 5, 10]), "f": fa,
                   "F": rng.choice([sum(f) or 1, 10, 7]), "lo": lo, "hi": hi, "target": rng.randrange(0, hi + 2), "delta": delta,
                   "src": "random"})
    # degrees beyond CPython's small-int cache (identity vs equality slips): equal probabilities keep every weight at 1
    for tgt in (256, 257, 258, 300):
        for delta in (True, False):
            lo, hi = tgt - 1, tgt + 2
            f = [0] * (hi + 2)
            for k in range(lo, hi):
                f[k - 1] = 1 + (k % 2)
            cs.append({"kind": "delta" if delta else "split", "a": [1, 1], "b": 2, "f": f, "F": 8, "lo": lo, "hi": hi, "target": tgt,
                       "delta": delta, "src": "large-degree"})
    # crash points: an earlier construction with the same degree function was aborted by its k-th call raising
    for c0 in [c for c in cs if c.get("src") == "random"][:200 if not thorough else 4000]:
        cs.append(dict(c0, pre_fault=rng.choice([1, 2, 3, 4, 6]), src="after-abort"))
    # fresh degree ranges for every abandoned construction (a memo keyed by degree is cold for the degrees it has not met yet)
    ab = []
    for i in range(60 if not thorough else 300):
        T = 2 + i % 2
        lo = 8 + (i * 3) % 47
        hi = lo + 2
        f = [1 + (k % 3) for k in range(hi + 2)]
        delta = i % 4 == 3
        ab.append({"kind": "delta" if delta else "split", "a": [1] * T, "b": T, "f": f, "F": sum(f), "lo": lo, "hi": hi, "target": lo + 1,
                   "delta": delta, "src": "after-abandoned", "pre_abort": rng.random() * 0.55})
    cs = ab + cs
    # (these come FIRST: whatever the implementation memoises per process is still cold when the abandoned constructions run)
    cs = [dict(c0, pre_abort=rng.random(), src="after-abandoned") for c0 in [c for c in cs if c.get("src") == "random"][200:400 if not thorough else 4000]] + cs
    traces = [L.execute(c) for c in cs]
    multi = [t for t in traces if len(t.get("steps", [])) > 1]
    if not multi:
        chk.not_decided.append("step-level C07_Accumulates: resolve_degree wrapper did not attach (final tables still judged)")
    chk.add_sample(next((t for t in traces if t["kind"] == "split" and len(t["first"]) > 3), traces[0]))
    chk.add_sample(next((t for t in traces if t["kind"] == "delta" and len(t["first"]) > 3), traces[0]))
    L.judge(chk, traces, "C07")
    chk.nontrivial = len({str(t["case"]) for t in traces if len(t["first"]) > 1})
    chk.extra["rule"] = "one case = one (probs, fp, range, target, loader type) with construction history; non-trivial = more than one joint degree in the table"
    chk.assumptions += ["probs = a_i/b and fp(k) = f_k/F with small integers; values decoded over the dictated denominator SumF*SumW(k) within 1e-6"]


def replay(chk, data):
    L.judge(chk, [L.execute(data["trace"]["case"])], "replay")
