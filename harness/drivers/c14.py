"""C14 - degree-distribution algebra is consistent and invertible.
Spec: Mixing.tla (inversion as a state machine over exact fractions; hard-coded reference deviation), MixingTrace.tla."""
import itertools
import json
import random as _r

from ..exact import decode
from . import rewire as R
from . import c13

NAMELISTS = {1: [["2-clique"], ["x"]], 2: [["2-clique", "3-clique"], ["x", "y"], ["3-clique", "2-clique-blue"], ["tri", "2-clique"]],
             3: [["2-clique", "3-clique", "4-clique"], ["a", "b", "c"]], 4: [["2-clique", "3-clique", "4-clique", "5-clique"], ["p", "q", "r", "s"]]}


def _drows(d, D):
    rows = []
    for key, x in d.items():
        n, ok = decode(x, D)
        rows.append({"k": [int(v) for v in key], "n": n, "ok": bool(ok), "D": int(D)})
    return sorted(rows, key=lambda r: r["k"])


_HELD = {}      # results returned for the previous algebra case, kept alive: later calls must not change them


def _dig(obj):
    """fingerprint of a (possibly nested) result of the algebra helpers"""
    if isinstance(obj, dict):
        return sorted((str(k), _dig(v)) for k, v in obj.items())
    if isinstance(obj, (list, tuple)):
        return [_dig(v) for v in obj]
    try:
        return float(obj).hex()
    except Exception:
        return str(obj)


def run_algebra(case):
    import gcmpy
    from gcmpy.tools.joint_excess_from_jdd import JointExcessfromJDD
    from gcmpy.tools.joint_degree_from_excess import JointDegreeFromExcess
    from gcmpy.tools.average_joint_degree_from_jdd import AverageJointDegreeFromJDD
    P = {tuple(k): w for k, w in case["P"]}
    W = sum(P.values())
    names = case["names"]
    T = len(names)
    raw = case.get("scale") == "raw"          # un-normalised weights: excess distributions and the inversion are scale invariant
    jdd = {k: (float(w) if raw else w / W) for k, w in P.items()}
    tr = {"kind": "algebra", "case": case, "check_mean": not raw, "P": [{"k": list(k), "w": w} for k, w in P.items()], "names": names, "raised": "",
          "excess": [[] for _ in names], "mean": [{"n": 0, "ok": False, "D": 1} for _ in names], "inv_raised": "", "inv": [],
          "earlier_changed": False}
    try:
        means = AverageJointDegreeFromJDD.get_average_joint_degrees(jdd)
        tr["mean"] = []
        for i in range(T):
            n, ok = decode(means[i], W)
            tr["mean"].append({"n": n, "ok": bool(ok), "D": W})
        qks = JointExcessfromJDD.get_joint_excess_distributions(jdd)
        mean_num = [sum(k[i] * w for k, w in P.items()) for i in range(T)]
        tr["excess"] = [_drows(qks[i], mean_num[i]) for i in range(T)]
    except Exception as ex:
        tr["raised"] = "%s: %s" % (type(ex).__name__, str(ex)[:70])
        return tr
    try:
        qd = JointExcessfromJDD.convert_list_qks_to_dict(qks, names)
        if case.get("dict_order") == "reversed":      # the dictionary need not be filled in the order of the name list
            qd = {nm: qd[nm] for nm in reversed(names)}
        back = JointDegreeFromExcess.get_joint_degree_distribution(qd, names)
        Wnz = sum(w for k, w in P.items() if w > 0 and any(k))
        tr["inv"] = _drows(back, Wnz)
        # the dictionaries returned for the PREVIOUS case still say what they said then
        if "objs" in _HELD:
            tr["earlier_changed"] = _dig(_HELD["objs"]) != _HELD["dig"]
        _HELD["objs"] = [qks, qd, back]
        _HELD["dig"] = _dig(_HELD["objs"])
    except Exception as ex:
        tr["inv_raised"] = "%s: %s" % (type(ex).__name__, str(ex)[:70])
    return tr


def run_rowsum(case):
    import gcmpy
    from gcmpy import ToolsNames as TN
    from gcmpy.tools.joint_excess_from_ejk import JointExcessFromEjk
    D = case["D"]
    names = case["names"]
    ejks = {}
    for nm, rows in zip(names, case["mats"]):
        ejks[nm] = {tuple(r["a"]) + tuple(r["b"]): r["w"] / D for r in rows}
    tr = {"kind": "rowsum", "case": case, "mats": [{"rows": rows} for rows in case["mats"]], "sums": [[] for _ in names], "raised": ""}
    try:
        M = gcmpy.JointExcessJointDegreeMatrices({TN.EJKS: ejks, TN.EDGE_NAMES: names})
        q = JointExcessFromEjk.get_excess_joint_distributions(M)
        tr["sums"] = [_drows(q[nm], D) for nm in names]
    except Exception as ex:
        tr["raised"] = "%s: %s" % (type(ex).__name__, str(ex)[:70])
    return tr


def run_network(case):
    import gcmpy
    from gcmpy import ToolsNames as TN
    from gcmpy.tools.joint_excess_from_ejk import JointExcessFromEjk
    from gcmpy.tools.joint_excess_from_jdd import JointExcessfromJDD
    G = c13.build_graph(case)
    tops = case["tops"]
    tr = {"kind": "network", "case": case, "rowsums": [[] for _ in tops], "excess": [[] for _ in tops], "raised": ""}
    try:
        extractor = gcmpy.JointExcessJointDegree({TN.NETWORK: G, TN.EDGE_NAMES: tops})
        for _ in range(case.get("extractions_before", 0)):      # history: the extractor was already asked before
            extractor.get_ejks()
        M = extractor.get_ejks()
        q = JointExcessFromEjk.get_excess_joint_distributions(M)
        jdd = gcmpy.JointDegreeDistributionFromNetwork.get_joint_degree_distribution(G)
        qj = JointExcessfromJDD.get_joint_excess_distributions(jdd)
        N = G.order()
        for i, t in enumerate(tops):
            E = sum(1 for e in case["edges"] if e[2] == t)
            if E == 0:
                continue
            tr["rowsums"][i] = _drows(q.get(t, {}), 2 * E)
            tr["excess"][i] = _drows(qj[i], sum(j[i] for j in case["jd"]))
    except Exception as ex:
        tr["raised"] = "%s: %s" % (type(ex).__name__, str(ex)[:70])
    return tr


def _execute(case):
    return {"algebra": run_algebra, "rowsum": run_rowsum, "network": run_network}[case["kind"]](case)


from ..history import with_prior
execute = with_prior(_execute, _HELD, lambda tr: tr.get("earlier_changed"))


def cases(chk):
    thorough = chk.tier == "thorough"
    rng = _r.Random(chk.seed)
    cs = []
    space = {1: [(0,), (1,), (2,), (3,)], 2: [(0, 0), (1, 0), (0, 1), (1, 1), (2, 1), (1, 2)],
             3: [(0, 0, 0), (1, 1, 1), (2, 0, 1), (0, 1, 0), (1, 2, 0)], 4: [(1, 1, 1, 1), (0, 2, 0, 1), (2, 0, 1, 0), (0, 0, 0, 0), (1, 0, 0, 2)]}
    for T in (1, 2, 3, 4):
        for r in (1, 2, 3, 4):
            for keys in itertools.combinations(space[T], r):
                if not any(all(x > 0 for x in k) for k in keys):
                    continue            # the statement's premise: some joint degree positive in every topology
                for wts in itertools.product((1, 2, 3), repeat=r):
                    if not thorough and rng.random() < 0.75:
                        continue
                    for names in NAMELISTS[T]:
                        cs.append({"kind": "algebra", "P": [[list(k), w] for k, w in zip(keys, wts)], "names": names,
                                   "dict_order": "reversed" if len(cs) % 2 else "names",
                                   "scale": "raw" if len(cs) % 5 == 3 else "norm"})
    for i in range(3000 if thorough else 60):       # arbitrary symmetric or asymmetric integer matrices
        T = rng.choice([1, 2, 3])
        names = rng.choice(NAMELISTS[T])
        mats = []
        for _ in names:
            ks = [tuple(rng.randrange(3) for _ in range(T)) for _ in range(rng.randrange(1, 4))]
            rows = {}
            for a in ks:
                for b in ks:
                    if rng.random() < 0.8:
                        rows[(a, b)] = rng.randrange(0, 4)
            mats.append([{"a": list(a), "b": list(b), "w": w} for (a, b), w in rows.items()])
        cs.append({"kind": "rowsum", "names": names, "mats": mats, "D": rng.choice([16, 10, 7])})
    for i in range(1500 if thorough else 50):       # clean annotated networks (annotations = actual motif counts)
        sizes = rng.choice([[2], [2, 3], [2, 3, 4], [3]])
        es, jd, tops = R.clean_network(rng, rng.choice([6, 10, 20, 40]), sizes, rng.choice([0.6, 1.0, 1.4]))
        if es:
            cs.append({"kind": "network", "edges": es, "jd": jd, "tops": tops, "extractions_before": i % 3, "labels": ["id", "shift", "big"][(i // 3) % 3], "jd_as_list": i % 4 == 2, "weights": i % 5 == 1})
    return cs


def run(chk):
    chk.mc("MC_Mixing", "MC_Mixing.cfg", required=["MNext"])
    chk.mc("MC_Mixing", "MC_Mixing_hardcoded.cfg", expect_violation="C14_InversionDefined")
    traces = [execute(c) for c in cases(chk)]
    for kind in ("algebra", "rowsum", "network"):
        chk.add_sample(next((t for t in traces if t["kind"] == kind), traces[0]))
    chk.judge("MixingTrace", "MixingTrace.cfg", traces, label="C14", key_fn=c13._key, heap="3g", parallel=8)
    chk.nontrivial = len({json.dumps(t["case"], sort_keys=True) for t in traces if t["kind"] != "algebra" or len(t["P"]) > 1})
    chk.extra["rule"] = "one case = one distribution with a topology-name list (algebra), one integer matrix set (row sums) or one clean annotated network; non-trivial = more than one key; distinct by input"
    chk.assumptions += ["distributions are integer weights over W; inversion premise: some joint degree is positive in every topology"]


def replay(chk, data):
    chk.judge("MixingTrace", "MixingTrace.cfg", [execute(data["trace"]["case"])], label="replay", key_fn=c13._key)
