"""C01 - generated graphs realise exactly the requested joint degree sequence.
C02 shares this driver (PROPERTY selects the clause set in StubMatchingTrace.tla)."""
import random as _r

from . import stub
from ..oracle import OracleMismatch
from ..core import Timeout

PROPERTY = "C01"


def _strip(rec):
    r = dict(rec)
    r.pop("trail", None)
    return r


def _key(tr, v):
    c = tr["case"]
    return "%s/%s/%s/%s" % (c["gen"], c["via"], c["cfg"] if isinstance(c["cfg"], str) else "inline", v["v"].split(":", 1)[-1])


def collect(chk):
    thorough = chk.tier == "thorough"
    rng = _r.Random(chk.seed)
    traces = []
    undecided = 0
    # (i) every RNG leaf for every (configuration, jds) of the MC family
    N, maxdeg, cap = (3, 2, 4)
    fam_total = 0
    for cname in stub.MC_MIRROR:
        fam = stub.consistent_family(cname, N, maxdeg, cap)
        fam_total += len(fam)
        gen = "motifs" if stub.CONFIGS[cname]["custom"] else "fast"
        for jds in fam:
            try:
                lcap = None if (thorough or cname != "c_hub_tri") else 12
                for rec, _w in stub.enumerate_leaves({"gen": gen, "via": "direct", "cfg": cname, "jds": jds, "style": (len(traces) // 7) % 4,
                                                      "name_style": (len(traces) // 5) % 3}, max_leaves=lcap):
                    traces.append(_strip(rec)); chk.rng_leaves += 1
                # both construction paths and the network variant: first and a random leaf
                for g, via in ((gen, "main"),) + ((("network", "direct"), ("network", "main")) if gen == "fast" else ()):
                    n = 0
                    for rec, _w in stub.enumerate_leaves({"gen": g, "via": via, "cfg": cname, "jds": jds},
                                                         max_leaves=None if len(jds) and chk.rng_leaves % 7 == 0 else 2):
                        traces.append(_strip(rec)); chk.rng_leaves += 1
            except OracleMismatch:
                undecided += 1
                traces.append(_strip(stub.execute({"gen": gen, "via": "direct", "cfg": cname, "jds": jds,
                                                   "rng": ("seed", rng.randrange(1 << 30))})))
    chk.extra["mc_family_size"] = fam_total
    chk.exhaustive["every RNG leaf of the direct path for all (configuration, jds) of the MC family N=3 (%d inputs; c_hub_tri capped at 12 leaves per input in the quick tier)" % fam_total] = undecided == 0
    if thorough:
        for cname in stub.MC_MIRROR:
            fam = stub.consistent_family(cname, 4, 2, 5)
            rng.shuffle(fam)
            gen = "motifs" if stub.CONFIGS[cname]["custom"] else "fast"
            for jds in fam[:400]:
                for rec, _w in stub.enumerate_leaves({"gen": gen, "via": "direct", "cfg": cname, "jds": jds}, max_leaves=40):
                    traces.append(_strip(rec)); chk.rng_leaves += 1
    # (i') histories: the same generator object already produced a graph (same or another sequence) before the judged call
    for cname in stub.MC_MIRROR:
        fam = stub.consistent_family(cname, 3, 2, 4)
        gen = "motifs" if stub.CONFIGS[cname]["custom"] else "fast"
        for jds in fam[::3 if not thorough else 1]:
            pre = jds if rng.random() < 0.5 else rng.choice(fam)
            for g in ([gen] if gen == "motifs" else [gen, "network"]):
                for rec, _w in stub.enumerate_leaves({"gen": g, "via": rng.choice(["direct", "main"]), "cfg": cname, "jds": jds,
                                                      "pre_jds": pre, "pre_seed": rng.randrange(1 << 30),
                                                      "pre_same_list": rng.random() < 0.5}, max_leaves=6):
                    traces.append(_strip(rec)); chk.rng_leaves += 1
    # (i'') crash points: the earlier call on the same generator object was aborted by its k-th build callback raising
    # (StubMatching!Abort), the caller kept the object; the judged call must be a fresh, exact generation
    n_ab = 0
    for cname in stub.MC_MIRROR + ["f_mix4", "c_repo", "c_two_two_edge"]:
        gen = "motifs" if stub.CONFIGS[cname]["custom"] else "fast"
        if cname in stub.MC_MIRROR:
            fam = [j for j in stub.consistent_family(cname, 3, 2, 4) if any(any(x) for x in j)]
        else:
            fam = [stub.random_jds(rng, cname, rng.choice([4, 9, 20]), 2, zero_frac=0.2) for _ in range(12)]
        for jds in fam[::4 if not thorough else 1]:
            pre = jds if rng.random() < 0.5 else rng.choice(fam)
            for g in ([gen] if gen == "motifs" else [gen, "network"]):
                for k in (1, 2, rng.randrange(3, 8)):
                    case = {"gen": g, "via": rng.choice(["direct", "main"]), "cfg": cname, "jds": jds, "pre_jds": pre,
                            "pre_seed": rng.randrange(1 << 30), "pre_fault": k, "pre_same_list": rng.random() < 0.3}
                    if cname in stub.MC_MIRROR:
                        for rec, _w in stub.enumerate_leaves(case, max_leaves=3):
                            traces.append(_strip(rec)); chk.rng_leaves += 1; n_ab += bool(rec.get("pre_aborted"))
                    else:
                        rec = stub.execute(dict(case, rng=("seed", rng.randrange(1 << 30))))
                        traces.append(_strip(rec)); n_ab += bool(rec.get("pre_aborted"))
    chk.extra["judged_calls_after_an_aborted_call_on_the_same_generator"] = n_ab
    # (ii) larger sequences under the seeded oracle, all six construction paths
    n_seeded = 3000 if thorough else 400
    for i in range(n_seeded):
        cname = rng.choice(list(stub.CONFIGS))
        cfg = stub.CONFIGS[cname]
        n = rng.choice([1, 2, 5, 9, 17, 30, 60]) if not thorough else rng.randrange(1, 120)
        jds = stub.random_jds(rng, cname, n, rng.choice([1, 2, 3, 4]), zero_frac=rng.choice([0.0, 0.3, 0.6]))
        gens = ["motifs"] if cfg["custom"] else ["fast", "network"]
        traces.append(_strip(stub.execute({"gen": rng.choice(gens), "via": rng.choice(["direct", "main"]), "cfg": cname,
                                           "jds": jds, "rng": ("seed", rng.randrange(1 << 30)), "style": rng.randrange(4), "bare_alias": i % 2 == 0,
                                           "dict_reuse": i % 3 == 0, "same_names": i % 4 == 1})))   # parameter dictionary re-used; shared labels
    # random motif configurations (any number of motifs / orbits / shapes, motif order independent of column order)
    for i in range(4000 if thorough else 600):
        custom = rng.random() < 0.6
        cfg = stub.random_config(rng, custom)
        jds = stub.random_jds(rng, cfg, rng.choice([1, 2, 4, 9, 25]), rng.choice([1, 2, 3]), zero_frac=rng.choice([0.0, 0.3]))
        gens = ["motifs"] if custom else ["fast", "network", "motifs"]
        g = rng.choice(gens)
        traces.append(_strip(stub.execute({"gen": g, "via": rng.choice(["direct", "main"]), "cfg": cfg, "jds": jds,
                                           "rng": ("seed", rng.randrange(1 << 30)), "as_custom": g == "motifs" and not custom,
                                           "style": rng.randrange(4), "name_style": rng.randrange(3), "dict_reuse": i % 4 == 1, "same_names": i % 5 == 2, "bare_alias": i % 3 == 0,
                                           "simple_builder": g != "motifs" and rng.random() < 0.5})))    # (per-edge naming callbacks need a fixed edge count)
    # motifs with very many members (orbit sizes 49, 98, 107: counts derived through float reciprocals go wrong from 49 on)
    for size in (49, 98, 107):
        for reps in (1, 2):
            cfg = dict(custom=True, sizes=[size], motifs=[([0], [(i, i + 1) for i in range(size - 1)], False)])
            jds = [(1,)] * (size * reps)
            for g in ("motifs", "fast"):
                traces.append(_strip(stub.execute({"gen": g, "via": "direct", "cfg": dict(cfg, custom=(g == "motifs")), "jds": jds,
                                                   "rng": ("seed", rng.randrange(1 << 30))})))
    # the custom generator also accepts single-orbit configurations written for the fast one
    for i in range(60 if not thorough else 400):
        cname = rng.choice(["f_edge_tri", "f_mix4", "f_k4_cyc5", "f_single_path"])
        jds = stub.random_jds(rng, cname, rng.choice([3, 8, 20]), 3)
        traces.append(_strip(stub.execute({"gen": "motifs", "via": rng.choice(["direct", "main"]), "cfg": cname,
                                           "jds": jds, "rng": ("seed", rng.randrange(1 << 30)), "as_custom": True})))
    if undecided:
        chk.not_decided.append("exhaustive RNG enumeration: oracle did not attach for %d inputs (seeded run judged instead)" % undecided)
    return traces


def run(chk, prop=None):
    prop = prop or PROPERTY
    req = ["Shuffle", "Partition", "Emit"]
    chk.mc("MC_StubMatching", "MC_StubMatching.cfg", required=req)
    chk.mc("MC_StubMatching", "MC_StubMatching_again.cfg", required=req + ["GenerateAgain", "Abort"])   # a second graph from the same generator object (earlier call returned or was aborted by a raising callback)
    chk.mc("MC_StubMatching", "MC_StubMatching_abortleak.cfg" if prop == "C01" else "MC_StubMatching_abortleak_cols.cfg",
           expect_violation="C01_Count" if prop == "C01" else "C02_IdsPartitionCalls")   # deviation: an aborted call's columns / counter survive
    if chk.tier == "thorough":
        chk.mc("MC_StubMatching", "MC_StubMatching_big.cfg", required=req, timeout=7200)
    if prop == "C02":
        chk.mc("MC_StubMatching", "MC_StubMatching_pinned.cfg", expect_violation="C02_ColumnsParallel")
    traces = collect(chk)
    chk.add_sample({k: v for k, v in traces[len(traces) // 3].items()})
    chk.add_sample({k: v for k, v in traces[-1].items() if k not in ("edge", "top", "mid", "pair_ok", "net_edges", "net_jd", "net_nodes")})
    B = 6000
    for i in range(0, len(traces), B):
        chk.judge("StubMatchingTrace", "StubMatchingTrace.cfg", traces[i:i + B], label="%s batch %d" % (prop, i // B),
                  env={"PROPERTY": prop}, key_fn=_key)
    chk.nontrivial = len({(str(t["case"]["cfg"]), t["case"]["gen"], str(t["jds"]), str(t["calls"])) for t in traces if t["calls"]})
    chk.extra["rule"] = "one case = one execution of a generator (configuration, jds, RNG resolution); non-trivial = at least one motif emitted; distinct by (configuration, generator, jds, callback log)"
    chk.assumptions += ["build / naming callbacks are the recording closures of the harness (any callback is data to the generator)",
                        "shuffle randomness reaches the generator through random._inst._randbelow (oracle attachment)"]


def replay(chk, data, prop=None):
    tr = _strip(stub.execute(data["trace"]["case"]))
    chk.judge("StubMatchingTrace", "StubMatchingTrace.cfg", [tr], label="replay", env={"PROPERTY": prop or PROPERTY}, key_fn=_key)
