"""C05 - sampled joint degree sequences are handshake-consistent minimal perturbations.
Spec: Sampling.tla (MC + deviation), SamplingTrace.tla (JUDGE: runs and exact draw distributions)."""
import itertools
import math
import random as _r
from fractions import Fraction

from ..core import watchdog, Timeout
from ..oracle import Oracle, OracleMismatch

KS = {1: [(0,), (1,), (2,)], 2: [(0, 0), (1, 0), (0, 1), (2, 1), (1, 2)]}


def mc_family():
    """mirror of MC_Sampling.cfg's initial states (without N): (keys, wts, sizes)"""
    fam = []
    for T in (1, 2):
        ks = KS[T]
        for wts in itertools.product(range(3), repeat=len(ks)):
            npos = sum(1 for w in wts if w > 0)
            if npos == 0 or npos > 2:
                continue
            for sizes in itertools.product((1, 2, 3), repeat=T):
                fam.append((ks, list(wts), list(sizes)))
    return fam


def _loader(case):
    import gcmpy
    from gcmpy import JointDegreeNames as JN
    keys = [tuple(k) for k in case["keys"]]
    if case.get("offset"):
        # very large but legal degrees: every coordinate carries the same offset, a multiple of every motif size, so that
        # divisibility, minimality and "never removes" are unchanged when the offset is taken off again in the trace
        keys = [tuple(x + case["offset"] for x in k) for k in keys]
    if case.get("np_keys"):
        import numpy as np
        dt = getattr(np, case["np_keys"])
        keys = [tuple(dt(x) for x in k) for k in keys]        # keys loaded from numpy data (small values, no overflow)
    scale = case.get("scale", "int")
    W = sum(case["wts"])
    # "any positive weights, normalised or not": also weights that are tiny or huge in absolute terms (exact powers of two)
    val = {"int": lambda w: w, "norm": lambda w: w / W, "unnorm": lambda w: w * 0.37,
           "tiny": lambda w: w * 2.0 ** -60, "huge": lambda w: w * 2.0 ** 40}[scale]
    jdd = {k: val(w) for k, w in zip(keys, case["wts"]) if w > 0 or case.get("keep_zero")}
    params = {JN.JDD: jdd, JN.MOTIF_SIZES: list(case["sizes"])}
    pre = case.get("pre")
    if pre:
        # history on ONE loader object: an earlier distribution was loaded and sampled from, then the
        # distribution was replaced (setter / in-place edit of .jdd / empirical rebuild); the sample that
        # is judged must follow the CURRENT distribution
        W0 = sum(pre["wts"])
        old = {tuple(k): w / W0 for k, w in zip(pre["keys"], pre["wts"]) if w > 0}
        if pre["how"] == "empirical":
            obs0 = [tuple(k) for k, w in zip(pre["keys"], pre["wts"]) for _ in range(w)]
            obs1 = [k for k, w in zip(keys, case["wts"]) for _ in range(w)]
            ld = gcmpy.JointDegreeEmpirical({JN.JDS: obs0, JN.MOTIF_SIZES: list(case["sizes"])})
        else:
            ld = gcmpy.JointDegreeManual({JN.JDD: dict(old), JN.MOTIF_SIZES: list(pre.get("sizes0") or case["sizes"])})
        Oracle().run_seeded(pre.get("seed", 5), lambda: ld.sample_jds_from_jdd(pre.get("N", 3)))
        if pre.get("sizes0"):
            # the motif sizes of the object were different while the earlier sample was taken; now set through the property
            ld.motif_sizes = list(case["sizes"])
        if pre.get("normalise_first") and callable(getattr(ld, "normalise_jdd", None)):
            ld.normalise_jdd()          # the public normaliser was used on the earlier distribution; the new one is taken as given
        if pre["how"] == "setter":
            ld.jdd = dict(jdd)
        elif pre["how"] == "inplace":
            d = ld.jdd
            for k in list(d):
                del d[k]
            d.update(jdd)
        else:
            ld.empirical_jds = obs1
            ld.create_jdd()
        return ld
    if case.get("cover"):
        # "any joint degree distribution": one that a loader derived from a clique cover (singleton cliques give motif size 1)
        return gcmpy.JointDegreeCover({JN.COVER: [list(c) for c in case["cover"]]})
    if case.get("via") == "function":
        # "any joint degree distribution": one that the function loader tabulated from a user callable over a degree box
        # (the callable's weights may be tiny or huge in absolute terms)
        T_ = len(case["sizes"])
        bounds = [(min(k[i] for k in jdd), max(k[i] for k in jdd)) for i in range(T_)]
        return gcmpy.JointDegreeFunction({JN.FP: (lambda jd: jdd.get(tuple(int(x) for x in jd), 0.0)), JN.MOTIF_SIZES: list(case["sizes"]),
                                          JN.LOW_HIGH_DEGREE_BOUND: bounds})
    if case.get("via") == "entry":
        params[JN.JOINT_DEGREE_TYPE] = "manual"
        return gcmpy.JointDegreeDistribution.load_joint_degree(params)
    return gcmpy.JointDegreeManual(params)


def execute(case):
    import gcmpy
    from gcmpy import JointDegreeNames as JN, GCMAlgorithmNames as GN
    tr = {"kind": "run", "case": case, "keys": [list(k) for k in case["keys"]], "wts": list(case["wts"]),
          "sizes": list(case["sizes"]), "N": case["N"], "raw_known": False, "raw": [], "out": [], "types_ok": True,
          "raised": "", "usable_empirical": "", "usable_generator": "", "out_again": []}
    captured = {}
    try:
        loader = _loader(case)
        if case.get("cover"):
            # distribution and motif sizes are whatever the loader reports (its correctness is C08's business)
            tr["keys"] = [[int(x) for x in k] for k in loader.jdd]
            tr["wts"] = [1] * len(tr["keys"])
            tr["sizes"] = [int(x) for x in loader.motif_sizes]
        orig = getattr(loader, "handshaking_lemma", None)
        if callable(orig):
            def wrapper(jds, *a, **k):
                captured["raw"] = [tuple(x) for x in jds]
                return orig(jds, *a, **k)
            loader.handshaking_lemma = wrapper
        orc = Oracle()
        orc.cell = case.get("cell", 0.5)
        W = sum(case["wts"])
        with watchdog(30):
            if case["rng"][0] == "seed":
                out = orc.run_seeded(case["rng"][1], lambda: loader.sample_jds_from_jdd(case["N"]))
            elif case["rng"][0] == "open":
                out = orc.run_open(case["rng"][1], lambda: loader.sample_jds_from_jdd(case["N"]), grid=W)
            else:
                out = orc.run_directed(case["rng"][1], lambda: loader.sample_jds_from_jdd(case["N"]), grid=W)
        tr["trail"] = [list(t) for t in orc.trail] if case["rng"][0] != "seed" else []
    except (OracleMismatch, Timeout):
        raise
    except Exception as ex:
        tr["raised"] = "%s: %s" % (type(ex).__name__, str(ex)[:60])
        return tr
    off = case.get("offset", 0)
    if "raw" in captured:
        tr["raw_known"] = True
        tr["raw"] = [[int(x) - off for x in r] for r in captured["raw"]]
    K = len(tr["sizes"])
    ok = isinstance(out, (list, tuple))          # the container is not pinned down by the property; the entries are
    enc = []
    for e in (out if ok else []):
        import numbers
        good = isinstance(e, tuple) and len(e) == K and all(isinstance(x, numbers.Integral) and not isinstance(x, bool) and x >= 0 for x in e)
        good = good and all(x >= off for x in e)
        ok = ok and good
        enc.append([int(x) - off for x in e] if good else [0] * K)
    tr["types_ok"] = bool(ok)
    tr["out"] = enc
    tr["out_again"] = enc
    if ok and case["rng"][0] == "seed":
        # the returned sequence belongs to the caller: a later sample from the same loader must not change it
        try:
            Oracle().run_seeded(case["rng"][1] + 1, lambda: loader.sample_jds_from_jdd(max(1, case["N"] - 1)))
            tr["out_again"] = [[int(x) - off for x in e] for e in out]
        except Exception:
            pass
    if ok and not off:
        # "usable wherever the library accepts a joint degree sequence"
        try:
            gcmpy.JointDegreeEmpirical({JN.MOTIF_SIZES: list(tr["sizes"]), JN.JDS: out})
        except Exception as ex:
            tr["usable_empirical"] = type(ex).__name__
        try:
            params = {GN.MOTIF_SIZES: list(tr["sizes"]), GN.BUILD_FUNCTIONS: [gcmpy.clique_motif] * K,
                      GN.EDGE_NAMES: ["t%d" % k for k in range(K)]}
            Oracle().run_seeded(1, lambda: gcmpy.GCMAlgorithmFast(params).random_clustered_graph(out))
        except Exception as ex:
            tr["usable_generator"] = type(ex).__name__
    return tr


def leaves(base, max_leaves=None):
    prefix, n = [], 0
    while prefix is not None:
        tr = execute(dict(base, rng=("open", prefix)))
        trail = tr.pop("trail", [])
        tr["case"] = dict(base, rng=("plan", [t[2] for t in trail]))
        yield tr, Oracle.weight(trail)
        n += 1
        if max_leaves and n >= max_leaves:
            return
        prefix = Oracle.next_prefix(trail)


_RAISED_LEAVES = []


def dist_trace(base):
    """exact distribution of the raw draws over the whole RNG tree (aligned grid of W points)"""
    tally, total, n = {}, Fraction(0), 0
    tr = {"kind": "dist", "case": base, "keys": [list(k) for k in base["keys"]], "wts": list(base["wts"]),
          "N": base["N"], "decided": True, "tally": [], "sum_one": True, "leaves": 0, "why": ""}
    try:
        for t, w in leaves(base, max_leaves=50000):
            n += 1
            if t["raised"] or not t["raw_known"]:
                tr["decided"], tr["why"] = False, t["raised"] or "raw draws not observable"
                if t["raised"]:
                    _RAISED_LEAVES.append(t)      # the law is not decided, but a sampler that raises on a valid distribution is judged as a run
                break
            key = tuple(tuple(r) for r in t["raw"])
            tally[key] = tally.get(key, Fraction(0)) + w
            total += w
            if n % 7 == 1 and t["case"]["rng"][0] == "plan":
                # the grid is exact only if every uniform draw is used through comparisons with multiples of 1/W: replay this leaf
                # with the draws moved to both ends of their cells
                for cell in (0.002, 0.998):
                    try:
                        t2 = execute(dict(t["case"], cell=cell))
                        same = t2["raw"] == t["raw"] and t2["out"] == t["out"]
                    except OracleMismatch:
                        same = False
                    if not same:
                        tr["decided"], tr["why"] = False, "results depend on the uniform draws beyond comparisons with multiples of 1/W (grid not exact)"
                        break
                if not tr["decided"]:
                    break
    except OracleMismatch as ex:
        tr["decided"], tr["why"] = False, "oracle: %s" % ex
    tr["leaves"] = n
    if tr["decided"]:
        tr["sum_one"] = total == 1
        tr["tally"] = [{"raw": [list(r) for r in k], "num": v.numerator, "den": v.denominator} for k, v in sorted(tally.items())]
    return tr


def _key(tr, v):
    c = tr["case"]
    return "%s/sizes%s/%s" % (tr["kind"], "".join(map(str, c["sizes"])), v["v"].split(":", 1)[-1])


def run(chk):
    thorough = chk.tier == "thorough"
    r = chk.mc("MC_Sampling", "MC_Sampling.cfg", required=["Draw", "StartRepair", "Patch", "NextTopology", "NewRun"])
    chk.mc("MC_Sampling", "MC_Sampling_deviant.cfg", expect_violation="C05_NeverRemoves")
    fam = mc_family()
    chk.extra["mc_family"] = {"python": len(fam) * 2, "tlc_init_states": r.coverage.get("Init", (0, 0))[0]}
    if len(fam) * 2 != r.coverage.get("Init", (0, 0))[0]:      # the MC uses N in 1..2 (with distribution-change histories)
        raise Exception("driver family (%d) and MC initial states (%s) differ" % (len(fam) * 2, r.coverage.get("Init")))
    rng = _r.Random(chk.seed)
    traces, dists = [], []
    und = 0
    # (a) RNG-tree conformance on the MC family
    for idx, (ks, wts, sizes) in enumerate(fam):
        for N in (1, 2, 3):
            base = {"keys": ks, "wts": wts, "sizes": sizes, "N": N, "scale": rng.choice(["int", "norm", "unnorm"]),
                    "via": rng.choice(["direct", "entry"])}
            full = thorough or (idx + N) % 5 == 0
            try:
                for t, _w in leaves(base, max_leaves=(400 if thorough else 150) if full else 3):
                    traces.append(t); chk.rng_leaves += 1
            except OracleMismatch:
                und += 1
                traces.append(execute(dict(base, rng=("seed", rng.randrange(1 << 30)))))
    # (b) exact law of the draws (N = 1, 2) incl. cases where patches follow
    for idx, (ks, wts, sizes) in enumerate(fam):
        if thorough or idx % 4 == 0:
            for N in (1, 2):
                dists.append(dist_trace({"keys": ks, "wts": wts, "sizes": sizes, "N": N,
                                         "scale": ["int", "norm", "unnorm"][(idx + N) % 3]}))
    # histories: the same law must hold for a sample taken after the distribution of the object was replaced
    for how in ("setter", "inplace", "empirical"):
        for wts0, wts1 in (([1, 2, 3], [3, 0, 1]), ([0, 1, 0], [2, 1, 1]), ([4, 1, 0], [0, 1, 4])):
            pre = {"keys": KS[1], "wts": wts0, "how": how, "N": 4}
            if how != "empirical":
                pre["sizes0"] = [2] if wts0[0] else [1]
            dists.append(dist_trace({"keys": KS[1], "wts": wts1, "sizes": [2], "N": 2, "scale": "norm", "pre": pre}))
            for N in (1, 3):
                for tr, _w in leaves({"keys": KS[1], "wts": wts1, "sizes": [3], "N": N, "scale": "norm", "pre": pre}, max_leaves=40):
                    traces.append(tr); chk.rng_leaves += 1
    for wts0, wts1 in (([1, 2, 3], [6, 3, 1]), ([1, 1, 1], [1, 5, 1])):
        for how in ("setter", "inplace"):
            for scale in ("int", "unnorm", "huge"):
                dists.append(dist_trace({"keys": KS[1], "wts": wts1, "sizes": [2], "N": 2, "scale": scale,
                                         "pre": {"keys": KS[1], "wts": wts0, "how": how, "N": 3, "normalise_first": True}}))
    for wts in ([1, 2, 3], [5, 1, 14], [1, 1, 1]):
        for scale in ("int", "norm", "tiny", "huge", "unnorm"):
            dists.append(dist_trace({"keys": KS[1], "wts": wts, "sizes": [2], "N": 2, "scale": scale, "via": "function"}))
    for dt in ("int64", "int32", "int16"):      # signed only: unsigned numpy scalars wrap on negation, which would make legitimate arithmetic (-t % m) look wrong
        for sizes in ([3], [2], [5]):
            for N in (1, 2, 3):
                for tr, _w in leaves({"keys": KS[1], "wts": [1, 1, 1], "sizes": sizes, "N": N, "scale": "int", "np_keys": dt}, max_leaves=30):
                    traces.append(tr); chk.rng_leaves += 1
    for wts in ([1, 2, 3], [5, 1, 1], [2, 2, 3], [1, 0, 6]):
        dists.append(dist_trace({"keys": KS[1], "wts": wts, "sizes": [2], "N": 2, "scale": "norm"}))
        dists.append(dist_trace({"keys": KS[1], "wts": wts, "sizes": [2], "N": 2, "scale": "tiny"}))
        dists.append(dist_trace({"keys": KS[1], "wts": wts, "sizes": [3], "N": 1, "scale": "huge"}))
        dists.append(dist_trace({"keys": [(0, 3), (1, 1), (4, 0)], "wts": wts, "sizes": [3, 2], "N": 1, "scale": "unnorm"}))
    chk.rng_leaves += sum(d["leaves"] for d in dists)
    traces.extend(_RAISED_LEAVES); del _RAISED_LEAVES[:]
    for t in traces:
        t.pop("trail", None)
    undd = [d for d in dists if not d["decided"]]
    if und or undd:
        chk.not_decided.append("draw-law / exhaustive leaves: oracle or wrapper not attached (%d runs, %d distributions: %s)"
                               % (und, len(undd), undd[0]["why"] if undd else ""))
    chk.exhaustive["exact draw law for %d (distribution, sizes, N<=2) cases over the full RNG tree" % len(dists)] = not undd
    # (c) seeded runs, N up to 2000, hypothesis-like random distributions
    for i in range(2000 if thorough else 300):
        T = rng.choice([1, 2, 3, 4])
        nk = rng.randrange(1, 7)
        keys = list({tuple(rng.randrange(0, 6) for _ in range(T)) for _ in range(nk)})
        case = {"keys": keys, "wts": [rng.randrange(1, 9) for _ in keys], "sizes": [rng.choice([1, 2, 3, 4, 5]) for _ in range(T)],
                "N": rng.choice([1, 2, 3, 7, 50, 400, 2000]) if not thorough else rng.randrange(1, 2000),
                "scale": rng.choice(["int", "norm", "unnorm", "tiny", "huge"]), "via": rng.choice(["direct", "entry"]),
                "rng": ("seed", rng.randrange(1 << 30))}
        traces.append(execute(case))
    # (c') very large degrees (beyond 2^53, where a float quotient stops being exact)
    for i in range(200 if thorough else 40):
        T = rng.choice([1, 2])
        sizes = [rng.choice([2, 3, 4, 5]) for _ in range(T)]
        L = math.lcm(*sizes)
        keys = list({tuple(rng.randrange(0, 6) for _ in range(T)) for _ in range(rng.randrange(1, 5))})
        traces.append(execute({"keys": keys, "wts": [rng.randrange(1, 5) for _ in keys], "sizes": sizes, "N": rng.choice([1, 2, 3, 7, 1001]),
                               "scale": "int", "offset": L * (2 ** 53 // L + rng.randrange(1, 50)), "rng": ("seed", rng.randrange(1 << 30))}))
    # (d) distributions derived from clique covers, singleton cliques (motif size 1) included
    for i in range(400 if thorough else 60):
        nv = rng.choice([4, 7, 12])
        cover = []
        for _ in range(rng.randrange(2, 9)):
            sz = rng.choice([1, 1, 2, 2, 3, 4])
            cover.append(sorted(rng.sample(range(nv), min(sz, nv))))
        used = sorted({v for c in cover for v in c})          # the cover loader wants vertex ids 0..n-1 (or 1..n) without gaps
        cover = [[used.index(v) for v in c] for c in cover]
        traces.append(execute({"keys": [], "wts": [], "sizes": [], "cover": cover, "N": rng.choice([1, 2, 3, 7, 40]),
                               "rng": ("seed", rng.randrange(1 << 30))}))
    for t in traces:
        t.pop("trail", None)
    patched = [t for t in traces if t["raw_known"] and t["raw"] != t["out"] and not t["raised"]]
    if not any(t["raw_known"] for t in traces):
        # the sampler no longer goes through the public handshaking_lemma of the loader object: the raw draws are not
        # observable; a stub was certainly added when a returned tuple is not one of the distribution's keys
        patched = [t for t in traces if not t["raised"] and any(o not in t["keys"] for o in t["out"])]
        chk.not_decided.append("raw draws not observable (sample_jds_from_jdd does not call handshaking_lemma on the object): "
                               "'support' and 'never removes' are judged through the explanation search for N <= 4 only")
    if not patched:
        raise Exception("vacuous batch: no recorded execution needed a patch")
    chk.nontrivial = len({str(t["raw"]) + str(t["out"]) + str(t["sizes"]) for t in patched})
    chk.add_sample(patched[0]); chk.add_sample(dists[1])
    B = 8000
    for i in range(0, len(traces), B):
        chk.judge("SamplingTrace", "SamplingTrace.cfg", traces[i:i + B], label="runs %d" % (i // B), key_fn=_key)
    chk.judge("SamplingTrace", "SamplingTrace.cfg", dists, label="draw law", key_fn=_key)
    chk.extra["rule"] = "one case = one call of sample_jds_from_jdd (distribution, sizes, N, RNG resolution); non-trivial = at least one stub was added; distinct by (raw draws, result, sizes)"
    chk.assumptions += ["draws reach the generator through random.choices/randrange of the global instance (oracle); "
                        "raw draws are observed by wrapping handshaking_lemma on the loader object"]


def replay(chk, data):
    c = data["trace"]["case"]
    tr = dist_trace(c) if data["trace"]["kind"] == "dist" else execute(c)
    tr.pop("trail", None)
    chk.judge("SamplingTrace", "SamplingTrace.cfg", [tr], label="replay", key_fn=_key)
