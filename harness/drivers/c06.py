"""C06 - manual, empirical, marginal and function loaders yield the documented law."""
import itertools
import random as _r

from . import loaders as L


def cases(chk):
    thorough = chk.tier == "thorough"
    rng = _r.Random(chk.seed)
    cs = []
    keyspace = {1: [(0,), (1,), (2,)], 2: [(0, 0), (1, 0), (0, 1), (2, 1), (1, 2)]}
    # manual: every dictionary with <= 3 keys over the key space, weights 1..3 (a sample of the weight vectors)
    for T in (1, 2):
        for r in (1, 2, 3):
            for keys in itertools.combinations(keyspace[T], r):
                for wts in itertools.product((1, 2, 3), repeat=r):
                    if not thorough and rng.random() < 0.6:
                        continue
                    cs.append({"kind": "manual", "d": [[list(k), w] for k, w in zip(keys, wts)], "D": sum(wts) + rng.choice([0, 0, 3]),
                               "sizes": [2, 3][:T]})
    # empirical: every observed sequence of length <= 4 over a small key space (sampled for length 4)
    for T in (1, 2):
        ks = keyspace[T][:3]
        for n in (1, 2, 3, 4):
            for obs in itertools.product(ks, repeat=n):
                if n == 4 and not thorough and rng.random() < 0.7:
                    continue
                cs.append({"kind": "empirical", "obs": [list(o) for o in obs], "sizes": [2, 3][:T]})
    for i in range(3000 if thorough else 40):
        T = rng.choice([1, 2, 3, 4])
        cs.append({"kind": "empirical", "obs": [[rng.randrange(4) for _ in range(T)] for _ in range(rng.randrange(1, 200))],
                   "sizes": [2, 3, 4, 5][:T]})
        # the same loader object held another sequence before (public property + create_jdd)
        cs.append({"kind": "empirical", "obs": [[rng.randrange(3) for _ in range(T)] for _ in range(rng.randrange(1, 12))],
                   "pre_obs": [[rng.randrange(4) for _ in range(T)] for _ in range(rng.randrange(1, 12))], "sizes": [2, 3, 4, 5][:T]})
    # function: integer tables on closed boxes with <= 12 cells
    for i in range(6000 if thorough else 150):
        T = rng.choice([1, 2, 2, 3])
        bounds = []
        for _ in range(T):
            lo = rng.randrange(0, 3)
            bounds.append([lo, lo + rng.randrange(0, 3 if T < 3 else 2)])
        box = list(itertools.product(*[range(b[0], b[1] + 1) for b in bounds]))
        cs.append({"kind": "function", "bounds": bounds, "cells": [[list(k), rng.randrange(0, 4)] for k in box],
                   "D": rng.choice([1, 7, 10]), "sizes": [2, 3, 4][:T]})
    # marginal: integer tables F_i : 0..4 -> 0..3, bounds inside 0..4
    for i in range(9000 if thorough else 200):
        T = rng.choice([1, 2, 2, 3])
        F, bounds = [], []
        for _ in range(T):
            lo = rng.randrange(0, 3)
            hi = lo + rng.randrange(1, 3)
            col = [[k, rng.randrange(0, 4)] for k in range(0, 6)]
            if all(w == 0 for k, w in col if lo <= k < hi):
                col[lo][1] = 1 + rng.randrange(3)
            F.append(col); bounds.append([lo, hi])
        base = {"F": F, "bounds": bounds, "dens": [rng.choice([1, 5, 9]) for _ in range(T)], "sizes": [2, 3, 4][:T]}
        if T >= 2 and i % 4 == 2:
            # one callable object for all topologies with equal bounds (the law is still the product of the marginals)
            base = {"F": [F[0]] * T, "bounds": [bounds[0]] * T, "dens": [base["dens"][0]] * T, "sizes": [2, 3, 4][:T], "shared_callable": True}
        cs.append(dict(base, kind="marginal", explicit_false=i % 2 == 1, fscale_pow=[0, 0, 30, 45][i % 4]))
        if i % 3 == 0 and T <= 2:
            cs.append(dict(base, kind="marginal_sample1", via=["direct", "entry"][len(cs) % 2]))
        if i % 3 == 1:
            cs.append(dict(base, kind="marginal_freq", n_samples=rng.choice([1, 2, 3, 5, 40]), seed=rng.randrange(1 << 30),
                           via=rng.choice(["direct", "entry"])))
    # crash points: an earlier construction with the same callables was aborted by the k-th callback call raising (caught by the caller)
    for c0 in [c for c in cs if c["kind"] in ("function", "marginal")][::2 if not thorough else 1]:
        cs.append(dict(c0, pre_fault=rng.choice([1, 2, 3, 5, 8])))
    for c0 in [c for c in cs if c["kind"] in ("function", "marginal", "empirical", "manual") and not c.get("pre_fault")][::3 if not thorough else 1]:
        cs.append(dict(c0, pre_abort=rng.random()))
    for c0 in [c for c in cs if c["kind"] == "manual"][::2]:
        cs.append(dict(c0, shared_params=True))
    return cs


def run(chk):
    chk.mc("Loaders", "MC_Loaders.cfg", required=["ResolveDegree", "DeleteColumn", "CreateJdd", "TryCandidate", "Restore"])
    chk.mc("Loaders", "MC_Loaders_rejectleak.cfg", expect_violation="C06_Law")   # deviation: a rejected candidate input leaves something behind
    from .. import crash
    crash.mc(chk)
    chk.mc("Loaders", "MC_Loaders_accum.cfg", expect_violation="C06_Law")
    cs = cases(chk)
    traces = [L.execute(c) for c in cs]
    und = [t for t in traces if t["kind"] == "marginal_sample1" and not t.get("decided", True)]
    if und:
        chk.not_decided.append("marginal sampling mode, law of one sample: RNG tree not enumerable (%d cases: %s)" % (len(und), und[0]["why"]))
    nk = [t for t in traces if t["kind"] == "marginal_freq" and not t.get("draws_known", True) and not t["raised"]]
    if nk:
        chk.not_decided.append("marginal sampling mode, frequency table: draws not observable (%d cases)" % len(nk))
    chk.rng_leaves = sum(t.get("leaves", 0) for t in traces)
    for kind in ("marginal", "function", "marginal_sample1"):
        chk.add_sample(next((t for t in traces if t["kind"] == kind), traces[0]))
    L.judge(chk, traces, "C06")
    chk.nontrivial = len({str(t["case"]) for t in traces if len(t["first"]) > 1})
    chk.extra["rule"] = "one case = one loader input with its construction history (direct, second create_jdd, entry point); non-trivial = table with more than one key; distinct by input"
    chk.assumptions += ["sampling mode 'in the limit': exact law of one sample + exact frequency tabulation; the limit itself is the law of large numbers",
                        "reals are integer weights over case-dictated denominators (decoded within 1e-6)"]


def replay(chk, data):
    L.judge(chk, [L.execute(data["trace"]["case"])], "replay")
