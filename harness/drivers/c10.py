"""C10 - MPCC labels partition the edges into maximal-first disjoint cliques.
Spec: MPCC.tla (MC over all graphs <= 5 vertices, all admissible orders; small-first deviation), MPCCTrace.tla."""
import ast
import itertools
import random as _r

from ..core import watchdog, Timeout
from ..oracle import Oracle, OracleMismatch, shuffle_plan_for


def _parse(label):
    try:
        parts = str(label).split("-")
        size = int(parts[0]); ident = int(parts[-1])
        members = ast.literal_eval("-".join(parts[1:-1]))
        members = [int(v) for v in members]
        return True, size, members, ident
    except Exception:
        return False, 0, [], -1


def execute(case):
    """case: nodes, edges, limit (None = omit the argument), rng: ('seed', s) | ('order', [clique lists in desired order])"""
    import networkx as nx
    import gcmpy
    G = nx.Graph()
    G.add_nodes_from(case["nodes"])
    G.add_edges_from([tuple(e) for e in case["edges"]])
    for i, (a, b) in enumerate(G.edges()):
        G.edges[a, b]["w"] = i            # a pre-existing attribute that must survive
    pre = case.get("pre")
    if pre:
        # history on ONE graph object: it was covered before, then edited (an edge moved: counts unchanged), now covered again
        prior = lambda g: (lambda: gcmpy.MPCC(g) if pre.get("limit", -1) == -1 else gcmpy.MPCC(g, pre["limit"]))
        try:
            if pre.get("abort") is not None:
                # crash point: that earlier cover was abandoned part-way (possibly inside networkx's clique enumeration)
                from ..crash import abort_frac
                Oracle().run_seeded(pre.get("seed", 3), lambda: abort_frac(prior(G.copy()), prior(G), pre["abort"], deep=True))
            else:
                Oracle().run_seeded(pre.get("seed", 3), prior(G))
        except Exception:
            pass
        if pre.get("move"):
            (a, b), (c, d) = pre["move"]
            if G.has_edge(a, b) and not G.has_edge(c, d):
                G.remove_edge(a, b)
                G.add_edge(c, d, w=1000)
    before_attr = {frozenset(e): {k: v for k, v in G.edges[e].items() if k != "clique"} for e in G.edges()}
    limit = None if case.get("limit", -1) == -1 else case["limit"]      # -1 = argument omitted
    tr = {"case": case, "nodes": list(case["nodes"]), "edges": [list(e) for e in G.edges()], "limit": limit or 0, "raised": "",
          "returned_input": True, "nodes_after": [], "edges_after": [], "other_attrs_changed": False, "labels": [], "order_realised": False}
    orc = Oracle()

    lim_arg = limit
    if limit is not None and case.get("np_limit"):
        import numpy as np
        lim_arg = np.int64(limit)             # a size limit computed with numpy is an integer too

    def go():
        return gcmpy.MPCC(G) if limit is None else gcmpy.MPCC(G, lim_arg)
    try:
        with watchdog(case.get("watchdog", 60)):
            if case["rng"][0] == "seed":
                R = orc.run_seeded(case["rng"][1], go)
            else:
                # directed: realise a chosen order of the clique list nx.enumerate_all_cliques yields
                base = [tuple(c) for c in nx.enumerate_all_cliques(G.copy())]
                want = [tuple(c) for c in case["rng"][1]]
                rest = [c for c in base if c not in want]
                target = [base.index(c) for c in want + rest]
                try:
                    R = orc.run_directed(shuffle_plan_for(target), go)
                    tr["order_realised"] = True
                except (OracleMismatch, ValueError, AssertionError):
                    R = orc.run_seeded(1, go)
    except Timeout:
        tr["raised"] = "Timeout"
        return tr
    except Exception as ex:
        tr["raised"] = "%s: %s" % (type(ex).__name__, str(ex)[:70])
        return tr
    tr["returned_input"] = R is G
    H = R if isinstance(R, nx.Graph) else G
    tr["nodes_after"] = [int(v) for v in H.nodes()]
    tr["edges_after"] = [[int(a), int(b)] for a, b in H.edges()]
    for a, b in H.edges():
        d = dict(H.edges[a, b])
        lab = d.pop("clique", None)
        if d != {k: v for k, v in before_attr.get(frozenset((a, b)), {}).items()}:
            tr["other_attrs_changed"] = True
        ok, size, members, ident = _parse(lab) if lab is not None else (False, 0, [], -1)
        tr["labels"].append({"a": int(a), "b": int(b), "has": lab is not None, "parse_ok": bool(ok) or lab is None,
                             "size": size, "members": members, "id": ident})
    return tr


def all_graphs(n):
    pairs = list(itertools.combinations(range(n), 2))
    for mask in range(1, 1 << len(pairs)):
        yield [pairs[i] for i in range(len(pairs)) if mask >> i & 1]


def big_clique_orders(edges, nodes, cap):
    """orders of the size>=3 cliques (the only ones whose relative order can matter besides ties with edges)"""
    import networkx as nx
    G = nx.Graph(); G.add_nodes_from(nodes); G.add_edges_from(edges)
    big = [tuple(c) for c in nx.enumerate_all_cliques(G) if len(c) >= 3]
    if not big:
        return [[]]
    perms = itertools.permutations(big)
    return [list(p) for p in itertools.islice(perms, cap)]


def _key(tr, v):
    return "limit=%s/%s" % (tr["limit"], v["v"].split(":", 1)[-1])


def run(chk):
    thorough = chk.tier == "thorough"
    chk.mc("MPCC", "MC_MPCC.cfg", required=["Consider", "Label", "EditAndCoverAgain"], timeout=7200)   # <= 4 vertices, cover-edit-cover histories
    chk.mc("MPCC", "MC_MPCC_5.cfg", required=["Consider", "Label"], timeout=7200)
    chk.mc("MPCC", "MC_MPCC_smallfirst.cfg", expect_violation="C10_GreedyMaximal")
    rng = _r.Random(chk.seed)
    traces = []
    realised = 0
    for n in (2, 3, 4, 5):
        nodes = list(range(n))
        for gi, es in enumerate(all_graphs(n)):
            if n == 5 and not thorough and gi % 2:
                continue
            for limit in (-1, 0, 2, 3, 4):
                if limit > n:
                    continue
                orders = big_clique_orders(es, nodes, 24 if thorough else 6)
                for od in orders:
                    traces.append(execute({"nodes": nodes, "edges": es, "limit": limit, "rng": ("order", od)}))
                traces.append(execute({"nodes": nodes, "edges": es, "limit": limit, "rng": ("seed", rng.randrange(1 << 30)), "np_limit": len(traces) % 3 == 0}))
    # histories: cover, move one edge (vertex and edge counts unchanged) or change only the limit, cover again
    for n in (3, 4) + ((5,) if thorough else ()):
        nodes = list(range(n))
        allp = list(itertools.combinations(range(n), 2))
        for gi, es in enumerate(all_graphs(n)):
            if n == 5 and gi % 5:
                continue
            moves = [(e, f) for e in es for f in allp if f not in es] + [None]
            for mv in moves:
                traces.append(execute({"nodes": nodes, "edges": es, "limit": rng.choice([-1, 0, 3]), "rng": ("seed", rng.randrange(1 << 30)),
                                       "pre": {"limit": rng.choice([-1, 0, 2, 3]), "seed": rng.randrange(1 << 30),
                                               "move": [list(mv[0]), list(mv[1])] if mv else None}}))
    # crash points: the earlier cover of the same graph object was abandoned part-way; the graph is unchanged and covered again
    for n in (4, 5, 6):
        nodes = list(range(n))
        for rep in range(40 if not thorough else 400):
            es = [e for e in itertools.combinations(range(n), 2) if rng.random() < rng.choice([0.6, 0.85, 1.0])]
            if es:
                traces.append(execute({"nodes": nodes, "edges": es, "limit": rng.choice([-1, 0, 3, 4]), "rng": ("seed", rng.randrange(1 << 30)),
                                       "pre": {"limit": rng.choice([-1, -1, 3]), "seed": rng.randrange(1 << 30), "move": None,
                                               "abort": rng.choice([0.05, 0.2, 0.4, 0.6, 0.8, 0.95])}}))
    realised = sum(1 for t in traces if t["order_realised"])
    if not realised:
        chk.not_decided.append("directed clique orders could not be realised through the oracle (seeded shuffles judged instead)")
    chk.exhaustive["every graph on <= 4 vertices (%s5), limits omitted/0/2/3/4, up to %d orders of the size>=3 cliques each"
                   % ("and <= " if thorough else "and every 2nd graph on ", 24 if thorough else 6)] = realised > 0
    # G(n,p) to 10 vertices, isolated vertices included, and generator outputs with triangles / 4-cliques
    for i in range(2000 if thorough else 400):
        n = rng.randrange(4, 11)
        p = rng.choice([0.3, 0.5, 0.7, 0.9])
        es = [(a, b) for a, b in itertools.combinations(range(n), 2) if rng.random() < p]
        ids = list(range(n))
        if i % 3 == 1:          # sparse multi-digit vertex ids (ids need not be 0..N-1)
            ids = sorted(rng.sample(range(3, 1000), n))
        elif i % 3 == 2:        # ids on a stride, inserted in another order
            ids = [7 + 11 * k for k in range(n)]
            rng.shuffle(ids)
        traces.append(execute({"nodes": ids, "edges": [(ids[a], ids[b]) for a, b in es], "limit": rng.choice([-1, 0, 2, 3, 4, 5, 7]),
                               "rng": ("seed", rng.randrange(1 << 30)), "np_limit": i % 4 == 0}))
    # large cliques that overlap in an edge, with small maximal cliques (triangles) sitting on their edges: the greedy-maximal
    # clause is decided by which of the big cliques loses the tie and what the satellites then take away from its sub-cliques
    for i in range(600 if thorough else 120):
        k1, k2 = rng.choice([(5, 5), (5, 5), (5, 6), (6, 6), (5, 4)])
        A = list(range(k1)); B = [k1 - 2, k1 - 1] + list(range(k1, k1 + k2 - 2))
        es = {tuple(sorted(e)) for e in itertools.combinations(A, 2)} | {tuple(sorted(e)) for e in itertools.combinations(B, 2)}
        nxt = k1 + k2 - 2
        for _ in range(rng.randrange(1, 5)):                      # a triangle on a random edge of either clique
            a, b = rng.sample(rng.choice([A, B]), 2)
            es |= {tuple(sorted((a, nxt))), tuple(sorted((b, nxt)))}
            nxt += 1
        traces.append(execute({"nodes": list(range(nxt)), "edges": sorted(es), "limit": rng.choice([-1, 0, 3, 4, 5]),
                               "rng": ("seed", rng.randrange(1 << 30))}))
    from . import stub
    for i in range(100 if thorough else 25):
        jds = stub.random_jds(rng, "f_mix4", rng.choice([8, 14, 20]), 2, zero_frac=0.2)
        rec = stub.execute({"gen": "network", "via": "direct", "cfg": "f_mix4", "jds": jds, "rng": ("seed", rng.randrange(1 << 30))})
        es = sorted({tuple(sorted(e)) for e in rec["net_edges"] if e[0] != e[1]})
        traces.append(execute({"nodes": list(range(len(jds))), "edges": es, "limit": rng.choice([-1, 0, 3, 4]),
                               "rng": ("seed", rng.randrange(1 << 30))}))
    chk.add_sample(next((t for t in traces if len(t["labels"]) >= 5 and any(l["size"] >= 3 for l in t["labels"])), traces[0]))
    chk.nontrivial = len({str(t["edges"]) + str(t["limit"]) + str(sorted(map(str, t["labels"]))) for t in traces
                          if any(l["size"] >= 3 for l in t["labels"])})
    B = 4000
    for i in range(0, len(traces), B):
        chk.judge("MPCCTrace", "MPCCTrace.cfg", traces[i:i + B], label="batch %d" % (i // B), key_fn=_key, heap="8g")
    chk.extra["orders_realised_through_oracle"] = realised
    chk.extra["rule"] = "one case = (graph, limit, clique order); non-trivial = some label has size >= 3; distinct by (graph, limit, labels)"
    chk.assumptions += ["vertex ids are non-negative ints (the label format uses '-' as separator)", "size limit 0/omitted or >= 2"]


def replay(chk, data):
    chk.judge("MPCCTrace", "MPCCTrace.cfg", [execute(data["trace"]["case"])], label="replay", key_fn=_key)
