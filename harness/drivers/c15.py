"""C15 - automated motif equation equals the exact bond-percolation expectation (polynomial identity) and is
independent of the evaluation history on a shared evaluator."""
import itertools
import random as _r

from . import perc as P


def run(chk):
    thorough = chk.tier == "thorough"
    chk.mc("MC_Percolation", "MC_Percolation.cfg", required=["Decide", "Eval"])
    chk.mc("MC_Percolation", "MC_Percolation_sharednames.cfg", expect_violation="C15_CachePure")
    from gcmpy.message_passing.equations.automated_equation import AutomatedEquation
    rng = _r.Random(chk.seed)
    traces = []
    cases = []
    for g in P.connected_atlas(5):
        for root in g.nodes():
            cases.append({"V": list(g.nodes()), "E": [list(e) for e in g.edges()], "root": root, "name": "atlas%d" % len(cases)})
    chk.exhaustive["every connected graph on <= 5 vertices x every focal vertex (%d pairs), fresh evaluator" % len(cases)] = True
    for g in P.connected_atlas(6, max_edges=9):           # every connected 6-vertex graph with <= 9 edges, every focal vertex
        if g.number_of_nodes() == 6:
            for root in g.nodes():
                cases.append({"V": list(g.nodes()), "E": [list(e) for e in g.edges()], "root": root, "name": "atlas%d" % len(cases)})
    if thorough:
        for g in P.connected_atlas(6, max_edges=11):
            for root in list(g.nodes())[:3]:
                cases.append({"V": list(g.nodes()), "E": [list(e) for e in g.edges()], "root": root, "name": "atlas%d" % len(cases)})
        for g in rng.sample(P.connected_atlas(7, max_edges=10), 25):
            cases.append({"V": list(g.nodes()), "E": [list(e) for e in g.edges()], "root": rng.choice(list(g.nodes())), "name": "atlas%d" % len(cases)})
    # larger cliques / cycles through the automated equation, relabelled vertices (ids need not start at 0)
    for n in (6, 7, 8, 9) if thorough else (6, 7):
        cases.append({"V": [10 + i for i in range(n)], "E": [[10 + i, 10 + (i + 1) % n] for i in range(n)], "root": 10 + n // 2, "name": "cyc%d" % n})
    cases.append({"V": [3, 5, 8, 13, 21], "E": [list(e) for e in itertools.combinations([3, 5, 8, 13, 21], 2)], "root": 8, "name": "k5-relabelled"})
    # vertex ids far from 0 (cover labels are arbitrary vertex ids of a large network): every third case relabelled
    for i, c in enumerate(cases):
        if i % 3 == 2:
            f = (lambda v: 1000 + 7 * v) if i % 2 else (lambda v: 70000 + v)
            cases[i] = dict(c, V=[f(v) for v in c["V"]], E=[[f(x), f(y)] for x, y in c["E"]], root=f(c["root"]))
    # numeric 0 / 1 in place of some indeterminates (u exactly 0; neighbours of the focal vertex sharing one value)
    extra = []
    for i, c in enumerate(cases):
        others = [v for v in c["V"] if v != c["root"]]
        nb = sorted({y if x == c["root"] else x for x, y in c["E"] if c["root"] in (x, y)})
        if i % 4 == 0 and others:
            extra.append(dict(c, name=c["name"] + "-z", zero_u=[others[i % len(others)]]))
        if i % 4 == 1 and len(nb) >= 2 and len(others) > len(nb):
            extra.append(dict(c, name=c["name"] + "-o", one_u=nb))            # every neighbour of the focal vertex has u = 1
        if i % 8 == 2 and len(others) >= 2:
            extra.append(dict(c, name=c["name"] + "-zo", zero_u=[others[0]], one_u=[others[-1]]))
    for i, c in enumerate(list(cases)):
        others = [v for v in c["V"] if v != c["root"]]
        if i % 6 == 3 and len(others) >= 2:
            # every non-focal vertex carries a number and their product is exactly 1 (2 * 1/2 * 1 ...)
            extra.append(dict(c, name=c["name"] + "-n", two_u=[others[0]], half_u=[others[1]], one_u=others[2:]))
        if i % 6 == 5 and len(others) >= 3:
            extra.append(dict(c, name=c["name"] + "-m", two_u=[others[0]], half_u=[others[-1]]))
    cases += extra
    for i, c in enumerate(cases):
        # a fresh evaluator per case; every second case reuses the SAME motif name on its own evaluator (names only have
        # to be distinct on one evaluator: two evaluators - e.g. two message-passing objects - may both call a motif "0-7")
        traces.append(P.run_auto(dict(c, name="0-7") if i % 2 else c))
    # history: ONE evaluator, distinctly named motifs, interleaved (motif, root) queries, numeric calls with other phi / u in between
    nh = 60 if thorough else 20
    for h in range(nh):
        ae = AutomatedEquation()
        pool = rng.sample(cases[:137] if len(cases) >= 137 else cases, 4)
        seq = [rng.choice(pool) for _ in range(8)]
        for c in seq:
            for v in rng.sample(c["V"], min(2, len(c["V"]))):          # other focal vertices of the same (named) motif first
                if rng.random() < 0.6:
                    P.run_auto_numeric(dict(c, root=v, phi_num=rng.choice([0, 1, 2, 3])), ae)
                else:
                    P.run_auto(dict(c, root=v), ae)
            pa = rng.random() if (h % 2 and rng.random() < 0.6) else None      # the judged call was abandoned part-way once before
            t = P.run_auto(dict(c, pre_abort=pa) if pa is not None else c, ae)
            t["what"] = "shared-evaluator"
            t["case"] = dict(c, history=h)
            traces.append(t)
    # crash points on fresh evaluators: every fifth case is first abandoned part-way, then asked again (same evaluator, same graph object)
    for i, c in enumerate(cases[::5]):
        t = P.run_auto(dict(c, pre_abort=[0.03, 0.3, 0.6, 0.9][i % 4]))
        t["what"] = "after-abandoned-call"
        traces.append(t)
    chk.extra["evaluations_judged_after_an_abandoned_evaluation"] = sum(1 for t in traces if t.get("pre_abort_outcome") == "aborted")
    from .. import crash
    crash.mc(chk)
    chk.add_sample(traces[20]); chk.add_sample(traces[-1])
    P.judge(chk, traces, "C15")
    chk.nontrivial = len({str(t["E"]) + str(t["root"]) for t in traces if len(t["E"]) >= 3})
    chk.extra["rule"] = "one case = (motif, focal vertex) evaluated with formal indeterminates (fresh evaluator, or after a history on a shared evaluator); non-trivial = at least 3 motif edges; distinct by (edges, root)"
    chk.assumptions += ["motifs evaluated on one evaluator carry distinct names (the statement's premise)",
                        "the equation code only uses + - * and integer powers on phi and u (otherwise the injection raises and is reported)"]


def replay(chk, data):
    P.judge(chk, [P.run_auto(data["trace"]["case"])], "replay", parallel=1)
