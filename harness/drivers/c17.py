"""C17 - message passing returns the fixed point of the motif-cover equations.
Spec: MessagePassing.tla (exponent-domain chaotic iteration, tree / cyclic covers), MessagePassingTrace.tla (JUDGE)."""
import itertools
import math
import random as _r

from ..core import watchdog, Timeout
from ..exact import decode

INF = 9999


def build_cover(rng, n_motifs, cyclic, kinds=("e", "e", "t", "k4", "c4", "d", "h", "c5")):
    """motifs pairwise sharing at most one vertex; tree-like by construction, optionally closed by one extra edge motif.
    returns list of (id, verts, edges)"""
    def shape(kind, vs):
        if kind == "h":      # house: 5-cycle with one chord (induced 4-cycle and triangle-with-pendant have equal counts)
            return [(vs[i], vs[(i + 1) % 5]) for i in range(5)] + [(vs[0], vs[2])]
        if kind == "c5":
            return [(vs[i], vs[(i + 1) % 5]) for i in range(5)]
        if kind == "e":
            return [(vs[0], vs[1])]
        if kind == "t":
            return list(itertools.combinations(vs, 2))
        if kind == "k4":
            return list(itertools.combinations(vs, 2))
        if kind == "c4":
            return [(vs[i], vs[(i + 1) % 4]) for i in range(4)]
        return [(vs[0], vs[1]), (vs[1], vs[2]), (vs[2], vs[3]), (vs[3], vs[0]), (vs[0], vs[2])]     # chorded 4-cycle (diamond)
    size = {"e": 2, "t": 3, "k4": 4, "c4": 4, "d": 4, "h": 5, "c5": 5}
    motifs = []
    nxt = 0
    for mid in range(n_motifs):
        kind = rng.choice(kinds)
        k = size[kind]
        if not motifs:
            vs = list(range(nxt, nxt + k)); nxt += k
        else:
            anchor = rng.choice(sorted({v for _i, mv, _e in motifs for v in mv}))
            vs = [anchor] + list(range(nxt, nxt + k - 1)); nxt += k - 1
            rng.shuffle(vs)
        motifs.append((mid + 10, vs, shape(kind, vs)))
    if cyclic and len(motifs) >= 3:
        allv = sorted({v for _i, mv, _e in motifs for v in mv})
        for _ in range(40):
            a, b = rng.sample(allv, 2)
            together = any(a in mv and b in mv for _i, mv, _e in motifs)
            if not together:
                motifs.append((len(motifs) + 10, [a, b], [(a, b)]))
                break
    return motifs


EDGE_ORDER = ["motif"]      # how the labelled graph is assembled: motif by motif | from the sorted edge list | from a shuffled one


def make_graph(motifs, isolated=0, order=None):
    import networkx as nx
    G = nx.Graph()
    G.add_nodes_from(range(900, 900 + isolated))        # vertices that belong to no motif (common in generated networks)
    rows = []
    for mid, vs, es in motifs:
        label = "%d-%s-%s-%d" % (len(vs), str(list(vs)), str([tuple(e) for e in es]), mid)
        for a, b in es:
            rows.append((a, b, label))
    order = order or EDGE_ORDER[0]
    if order == "sorted":           # the same network read from an edge list: a vertex's neighbours alternate between motifs
        rows.sort(key=lambda r: (min(r[0], r[1]), max(r[0], r[1])))
    elif order == "shuffled":
        _r.Random(len(rows)).shuffle(rows)
    for a, b, label in rows:
        G.add_edge(a, b, CoverLabel=label)
    return G


def _exp(v):
    if v == 0.0:
        return INF
    try:
        m, e = math.frexp(v)
    except Exception:
        return -1
    return -(e - 1) if m == 0.5 else -1


def _digest(tr, events, bulk, mp, motifs, phi, phi_kind, G, ans):
    """turn the recorded table accesses into init / update / final-read records (raises when the table has another shape)"""
    if events:
        tr["events_known"] = True
        first_call = next((n for n, e in enumerate(events) if e[0] == "c"), len(events))
        if not any(e[0] == "c" for e in events):
            # resolve_equation is not called any more: fall back to 'every write after the first read is an update'
            first_call = next((n for n, e in enumerate(events) if e[0] == "r"), len(events))
        init_writes = [e for e in events[:first_call] if e[0] == "w"]
        pre_reads = [e for e in events[:first_call] if e[0] == "r"]
        for _kd, k, v in init_writes:
            tr["init_keys"].append([int(k[0]), int(k[1])])
            if v != 0.5:
                tr["init_all_half"] = False
        # several init writes may hit the same key (one per edge of the motif): de-duplicate
        tr["init_keys"] = [list(x) for x in sorted({tuple(k) for k in tr["init_keys"]})]
        reads, pk = [(e[1], e[2]) for e in pre_reads], []
        for e in events[first_call:]:
            if e[0] == "r":
                reads.append((e[1], e[2]))
            elif e[0] == "c":
                pk = e[2]
            else:
                k, v = e[1], e[2]
                tr["updates"].append({"f": int(k[0]), "m": int(k[1]), "wrote": [int(k[0]), int(k[1])], "prods_keys": pk,
                                      "reads": [[int(r[0][0]), int(r[0][1])] for r in reads], "rx": [_exp(r[1]) for r in reads],
                                      "wx": _exp(v), "spot": False, "K": 0, "wn": 0, "wok": True})
                if phi == 0.5 and all(r[1] == 0.5 for r in reads):
                    # spot check: inputs all at the start value, the written message is an exactly computable dyadic rational
                    medges = next((len(es) for mid, _vs, es in motifs if mid == k[1]), 0)
                    K = medges + len(reads)
                    if K <= 28:
                        n, ok = decode(v, 2 ** K, tol=1e-4)
                        tr["updates"][-1].update({"spot": True, "K": K, "wn": n, "wok": bool(ok)})
                reads, pk = [], []
        tr["final_reads"] = [[int(r[0][0]), int(r[0][1])] for r in reads]
        tr["final_reads_known"] = bool(reads) and not bulk
        if bulk:
            tr["events_known"] = False       # the table was read in bulk somewhere: per-message bookkeeping not observable
        if len(tr["updates"]) > 4000:
            tr["updates"] = tr["updates"][:2000] + tr["updates"][-2000:]
        final = dict(mp._H_tau)
        exps = {k: _exp(v) for k, v in final.items()}
        if phi_kind == "one" and all(0 <= e <= 24 for e in exps.values()):
            X = {}
            for (v, m), e in exps.items():
                X[v] = X.get(v, 0) + e
            xmax = max(X.values()) if X else 0
            if xmax <= 24 and G.order() * 2 ** xmax < 2 ** 30:
                D = G.order() * 2 ** xmax
                n, ok = decode(ans, D)
                tr["answer_decided"] = True
                tr["answer"] = {"n": n, "ok": bool(ok), "D": D}
                tr["table"] = [{"v": int(v), "m": int(m), "e": e} for (v, m), e in sorted(exps.items())]
                tr["xmax"] = xmax



def run_once(case):
    """one theoretical(phi) call on a fresh object with every table access recorded"""
    import gcmpy
    motifs = [(m[0], list(m[1]), [tuple(e) for e in m[2]]) for m in case["motifs"]]
    G = make_graph(motifs, case.get("isolated", 0), case.get("edge_order"))
    phi = case["phi"]
    phi_kind = "zero" if phi == 0 else "one" if phi == 1 else "interior"
    events = []

    bulk = []

    class RecDict(dict):
        def __getitem__(self, k):
            v = dict.__getitem__(self, k)
            events.append(("r", k, v))
            return v

        def get(self, k, d=None):
            if k in self:
                return self[k]
            return d

        # bulk access (items / values / iteration) cannot be attributed to single messages: the read clauses are then not judged
        def items(self):
            bulk.append(len(events)); return dict.items(self)

        def values(self):
            bulk.append(len(events)); return dict.values(self)

        def __iter__(self):
            bulk.append(len(events)); return dict.__iter__(self)

        def __setitem__(self, k, v):
            events.append(("w", k, v))
            dict.__setitem__(self, k, v)

    class RecMP(gcmpy.MessagePassing):
        @property
        def _H_tau(self):
            try:
                return self.__dict__["_H"]
            except KeyError:
                raise AttributeError("_H_tau")

        @_H_tau.setter
        def _H_tau(self, d):
            self.__dict__["_H"] = RecDict(d)
    tr = {"kind": "run", "case": case, "cover": [{"id": mid, "V": vs, "E": [list(e) for e in es]} for mid, vs, es in motifs], "nodes": [int(v) for v in G.nodes()],
          "N": G.order(), "phi_kind": phi_kind, "iterations": case["iterations"], "events_known": False, "init_keys": [], "init_all_half": True,
          "updates": [], "final_reads": [], "final_reads_known": False, "raised": "", "answer_is_zero": False, "answer_decided": False,
          "answer": {"n": 0, "ok": False, "D": 1}, "table": [], "xmax": 0}
    try:
        mp = RecMP(G, iterations=case["iterations"])
        orig = mp.resolve_equation

        def wrapped(focal, label, prods, *a, **k):
            events.append(("c", int(focal), sorted(int(j) for j in prods)))
            return orig(focal, label, prods, *a, **k)
        mp.resolve_equation = wrapped
        with watchdog(120):
            ans = mp.theoretical(phi)
    except Timeout:
        raise
    except Exception as ex:
        tr["raised"] = "%s: %s" % (type(ex).__name__, str(ex)[:80])
        return tr
    tr["answer_is_zero"] = ans == 0.0
    tr["answer_float"] = float(ans)
    blank = {k: (list(v) if isinstance(v, list) else dict(v) if isinstance(v, dict) else v) for k, v in tr.items()}
    try:
        _digest(tr, events, bulk, mp, motifs, phi, phi_kind, G, ans)
    except Exception as ex:
        # the private message table is not the flat {(vertex, motif): float} dictionary any more (renamed, nested, slots ...):
        # per-message bookkeeping is not observable; only the answers are judged
        keep = {"answer_is_zero": tr["answer_is_zero"], "answer_float": tr["answer_float"]}
        tr.clear(); tr.update(blank); tr.update(keep)
        tr["events_known"], tr["final_reads_known"], tr["answer_decided"] = False, False, False
        tr["unobservable"] = "%s: %s" % (type(ex).__name__, str(ex)[:60])
    return tr


ISOLATED = [0]      # number of isolated vertices added by plain() (set per cover by run())


def plain(motifs, phi, iterations, obj=None):
    import gcmpy
    mp = obj or gcmpy.MessagePassing(make_graph(motifs, ISOLATED[0]), iterations=iterations)
    return mp, mp.theoretical(phi)


def run_history(case):
    EDGE_ORDER[0] = case.get("edge_order", EDGE_ORDER[0]); ISOLATED[0] = case.get("isolated", ISOLATED[0])
    tr = {"kind": "history", "case": case, "shared": [], "fresh": [], "raised": ""}
    try:
        motifs = [(m[0], list(m[1]), [tuple(e) for e in m[2]]) for m in case["motifs"]]
        mp = None
        for i, phi in enumerate(case["phis"]):
            fr = (case.get("abort_before") or {}).get(str(i))
            if fr is not None and mp is not None:
                # crash point: the query at this phi is first abandoned part-way on the shared object (the caller catches the
                # exception and asks again); the complete query must still equal a fresh object's answer
                from ..crash import abort_frac
                out = abort_frac(lambda: plain(motifs, phi, case["iterations"]), lambda: mp.theoretical(phi), fr)
                tr["aborted"] = tr.get("aborted", 0) + (out == "aborted")
            mp, v = plain(motifs, phi, case["iterations"], mp)
            tr["shared"].append(float(v).hex())
            _o, w = plain(motifs, phi, case["iterations"])
            tr["fresh"].append(float(w).hex())
    except Exception as ex:
        tr["raised"] = "%s: %s" % (type(ex).__name__, str(ex)[:80])
    return tr


def run_curve(case):
    EDGE_ORDER[0] = case.get("edge_order", EDGE_ORDER[0]); ISOLATED[0] = case.get("isolated", ISOLATED[0])
    tr = {"kind": "curve", "case": case, "vals": [], "first_is_phi_zero": True, "raised": ""}
    try:
        motifs = [(m[0], list(m[1]), [tuple(e) for e in m[2]]) for m in case["motifs"]]
        for i in range(case["points"] + 1):
            _o, v = plain(motifs, i / case["points"], case["iterations"])
            tr["vals"].append(int(round(float(v) * 1e9)))
    except Exception as ex:
        tr["raised"] = "%s: %s" % (type(ex).__name__, str(ex)[:80])
    return tr


def run_converge(case):
    EDGE_ORDER[0] = case.get("edge_order", EDGE_ORDER[0]); ISOLATED[0] = case.get("isolated", ISOLATED[0])
    tr = {"kind": "converge", "case": case, "a": 0, "b": 0, "raised": ""}
    try:
        motifs = [(m[0], list(m[1]), [tuple(e) for e in m[2]]) for m in case["motifs"]]
        _o, a = plain(motifs, case["phi"], case["iterations"])
        _o, b = plain(motifs, case["phi"], case["iterations"] + 1)
        tr["a"], tr["b"] = int(round(float(a) * 1e9)), int(round(float(b) * 1e9))
    except Exception as ex:
        tr["raised"] = "%s: %s" % (type(ex).__name__, str(ex)[:80])
    return tr


def _key(tr, v):
    return "%s/%s" % (tr["kind"], v["v"].split(":", 1)[-1])


def run(chk):
    thorough = chk.tier == "thorough"
    chk.mc("MC_MessagePassing", "MC_MessagePassing.cfg", required=["Update"])
    chk.mc("MC_MessagePassing", "MC_MessagePassing_live.cfg", required=["Update"])
    chk.mc("MC_MessagePassing", "MC_MessagePassing_cyclic.cfg", expect_violation="C17_AnyFixedPointIsZero")
    from .. import crash
    crash.mc(chk)
    rng = _r.Random(chk.seed)
    traces = []
    covers = []
    for i in range(60 if thorough else 8):
        covers.append(build_cover(rng, rng.randrange(2, 6), cyclic=(i % 3 == 2)))
    # the MC's own covers
    covers.append([(1, [1, 2, 3], [(1, 2), (1, 3), (2, 3)]), (2, [1, 4], [(1, 4)]), (3, [2, 5], [(2, 5)])])
    covers.append([(1, [1, 2], [(1, 2)]), (2, [2, 3], [(2, 3)]), (3, [3, 1], [(3, 1)])])
    for ci, motifs in enumerate(covers):
        iso = [0, 0, 2, 1][ci % 4]
        ISOLATED[0] = iso
        eo = ["motif", "sorted", "shuffled"][ci % 3]
        EDGE_ORDER[0] = eo
        for phi in (0, 1, 0.5, 0.3, 0.85):
            for it in ((1, 2, 5) if phi in (0, 1) else (1, 3)):
                traces.append(run_once({"motifs": motifs, "phi": phi, "iterations": it, "isolated": iso, "edge_order": eo}))
        traces.append(run_once({"motifs": motifs, "phi": 1, "iterations": 30, "isolated": iso, "edge_order": eo}))
        traces.append(run_history({"edge_order": eo, "isolated": iso, "motifs": motifs, "phis": rng.sample([0, 0.1, 0.25, 0.5, 0.5, 0.75, 1, 1, 0.3, 0.9, 0.15], 6),
                                   "iterations": rng.choice([1, 5, 25])}))
        for rep in range(3 if thorough else 1):
            phis = rng.sample([0, 0.1, 0.25, 0.5, 0.75, 1, 0.3, 0.9, 0.15], 5)
            traces.append(run_history({"edge_order": eo, "isolated": iso, "motifs": motifs, "phis": phis, "iterations": rng.choice([1, 2, 5]),
                                       "abort_before": {str(i): rng.choice([0.02, 0.2, 0.5, 0.8, 0.97]) for i in rng.sample(range(1, 5), 3)}}))
        for it in ((1, 5, 25) if (thorough or ci % 4 == 0) else (rng.choice([1, 5]),)):
            traces.append(run_curve({"edge_order": eo, "isolated": iso, "motifs": motifs, "points": 40 if thorough else (20 if ci % 4 == 0 else 10), "iterations": it}))
        if thorough or ci % 3 == 0:
            # away from slow-convergence points: 120 against 121 sweeps must agree to 1e-5 (measured: exactly equal on 60 random covers)
            for phi in (0.15, 0.5):
                traces.append(run_converge({"edge_order": eo, "isolated": iso, "motifs": motifs, "phi": phi, "iterations": 120}))
    runs = [t for t in traces if t["kind"] == "run"]
    if not any(t["events_known"] for t in runs):
        chk.not_decided.append("bookkeeping of every update (which messages are multiplied): the message table is not observable (no _H_tau attribute)")
    chk.add_sample(next((dict(t, updates=t["updates"][:3]) for t in runs if t["phi_kind"] == "one" and t["updates"]), runs[0]))
    chk.add_sample(next((t for t in traces if t["kind"] == "curve"), traces[0]))
    chk.judge("MessagePassingTrace", "MessagePassingTrace.cfg", traces, label="C17", key_fn=_key, heap="3g", parallel=8)
    chk.nontrivial = len({str(t["case"]) for t in traces})
    chk.extra["queries_judged_after_an_abandoned_query_on_the_same_object"] = sum(t.get("aborted", 0) for t in traces if t["kind"] == "history")
    chk.extra["updates_validated"] = sum(len(t["updates"]) for t in runs)
    chk.extra["updates_recomputed_exactly_at_phi_one_half"] = sum(1 for t in runs for u in t["updates"] if u.get("spot"))
    chk.extra["updates_recomputed_exactly_at_phi_zero_or_one"] = sum(len(t["updates"]) for t in runs if t["phi_kind"] != "interior")
    chk.extra["rule"] = "one case = one theoretical(phi) call with every message-table access recorded, one query history, one phi curve or one convergence pair; all distinct"
    chk.assumptions += ["equality with the fixed point at interior phi is compositional: every update multiplies exactly the right messages (validated at every phi), "
                        "each motif contributes its exact expectation (C15), values are recomputed exactly at phi in {0,1}, and 80 vs 81 iterations agree to 1e-6",
                        "motifs pairwise share at most one vertex; labels have the documented form"]


def replay(chk, data):
    c = data["trace"]["case"]
    k = data["trace"]["kind"]
    tr = {"run": run_once, "history": run_history, "curve": run_curve, "converge": run_converge}[k](c)
    chk.judge("MessagePassingTrace", "MessagePassingTrace.cfg", [tr], label="replay", key_fn=_key)
