"""Shared driver for C15 / C16 / C18: exact polynomial injection into the percolation equations, integer counts,
and the RNG tree of bond_percolate (judged by PercolationTrace.tla)."""
import itertools
import random as _r
from fractions import Fraction

from ..exact import Poly, InexactFloat
from ..oracle import Oracle, OracleMismatch
from ..core import watchdog, Timeout

PRIMES = [46337, 46327, 46309, 46307, 46301]


def poly_terms(val, pvar="p"):
    """integer coefficient table of a Poly keyed (exponent of p, sorted list of u-vertices); malformed flag"""
    if not isinstance(val, Poly):
        try:
            val = Poly.const(val)
        except Exception:
            return [], True
    terms, bad = [], False
    for mono, c in val.terms.items():
        a, C = 0, []
        for var, e in mono:
            if var == pvar:
                a = e
            elif var.startswith("u") and e == 1:
                C.append(int(var[1:]))
            else:
                bad = True
        if c.denominator != 1 or abs(c.numerator) >= 2 ** 31:
            bad = True
        terms.append({"a": a, "C": sorted(C), "c": int(c.numerator) if c.denominator == 1 else 0})
    return sorted(terms, key=lambda t: (t["a"], t["C"])), bad


def motif_graph(edges, name, uvals):
    import networkx as nx
    H = nx.Graph(name=name)
    H.add_edges_from([tuple(e) for e in edges])
    nx.set_node_attributes(H, uvals, "u")
    return H


def run_auto(case, evaluator=None):
    """automated_equation with indeterminates; case: V, E, root, name"""
    import gcmpy
    from gcmpy.message_passing.equations.automated_equation import AutomatedEquation
    tr = {"kind": "poly", "what": "automated", "case": case, "V": list(case["V"]), "E": [list(e) for e in case["E"]],
          "root": case["root"], "terms": [], "malformed": False, "raised": "",
          "zero_u": [v for v in case.get("zero_u", []) if v != case["root"]], "one_u": [v for v in case.get("one_u", []) if v != case["root"]],
          "neg_u": []}
    ae = evaluator or AutomatedEquation()
    us = {v: Poly.var("u%d" % v) for v in case["V"] if v != case["root"]}
    # some vertices carry the NUMBERS 0 or 1 instead of an indeterminate (u = 0 and coinciding u values are legal inputs):
    # the result must be the exact polynomial with those values substituted
    for v in tr["zero_u"]:
        us[v] = 0
    for v in tr["one_u"]:
        if v not in tr["zero_u"]:
            us[v] = 1
    tr["one_u"] = [v for v in tr["one_u"] if v not in tr["zero_u"]]
    # ... or the numbers 2 and 1/2 (u is any real number; products of u values may be exactly 1 without every factor being 1).
    # The result is scaled by 2^(number of halves) so that the substituted polynomial keeps integer coefficients.
    tr["two_u"] = [v for v in case.get("two_u", []) if v != case["root"] and v not in tr["zero_u"] + tr["one_u"]]
    tr["half_u"] = [v for v in case.get("half_u", []) if v != case["root"] and v not in tr["zero_u"] + tr["one_u"] + tr["two_u"]]
    # ... or the number -1 (u is any real number: sums of u values over a vertex subset may cancel exactly)
    tr["neg_u"] = [v for v in case.get("neg_u", []) if v != case["root"] and v not in tr["zero_u"] + tr["one_u"] + tr["two_u"] + tr["half_u"]]
    for v in tr["two_u"]:
        us[v] = Fraction(2)
    for v in tr["half_u"]:
        us[v] = Fraction(1, 2)
    for v in tr["neg_u"]:
        us[v] = -1
    try:
        with watchdog(60):
            # the focal vertex is given as an EQUAL id, not as the graph's own node object (ids above 256 are not interned)
            H = motif_graph(case["E"], case.get("name", "motif"), us)
            if case.get("pre_abort") is not None:
                # crash point: the same call (same evaluator, same graph object) was abandoned part-way before; the caller asks again
                from ..crash import abort_frac
                tr["pre_abort_outcome"] = abort_frac(
                    lambda: AutomatedEquation().automated_equation(motif_graph(case["E"], case.get("name", "motif"), us), Poly.var("p"), int(str(case["root"]))),
                    lambda: ae.automated_equation(H, Poly.var("p"), int(str(case["root"]))), case["pre_abort"])
            val = ae.automated_equation(H, Poly.var("p"), int(str(case["root"])))
        if tr["half_u"]:
            val = val * (2 ** len(tr["half_u"]))
        tr["terms"], tr["malformed"] = poly_terms(val)
    except Timeout:
        raise
    except Exception as ex:
        tr["raised"] = "%s: %s" % (type(ex).__name__, str(ex)[:70])
    return tr


def run_auto_numeric(case, evaluator):
    """a numeric call on the shared evaluator (fills whatever caches exist); result discarded"""
    us = {v: Fraction(1 + (v % 3), 4) for v in case["V"] if v != case["root"]}
    try:
        evaluator.automated_equation(motif_graph(case["E"], case.get("name", "motif"), us), Fraction(case.get("phi_num", 1), 3), case["root"])
    except Exception:
        pass


def run_clique(tau, one_u=(), two_u=(), neg_u=()):
    """clique_equation with indeterminate neighbour values; some neighbours may carry the NUMBERS 1, 2 or -1 instead
    (arbitrary, possibly different values: elementary symmetric sums of them may vanish exactly)"""
    import gcmpy
    V = list(range(tau))
    E = [list(e) for e in itertools.combinations(V, 2)]
    tr = {"kind": "poly", "what": "clique_equation", "case": {"kind": "clique", "tau": tau, "one_u": list(one_u), "two_u": list(two_u), "neg_u": list(neg_u)},
          "V": V, "E": E, "root": 0,
          "terms": [], "malformed": False, "raised": "", "zero_u": [], "one_u": list(one_u), "two_u": list(two_u), "half_u": [], "neg_u": list(neg_u)}
    val_of = lambda v: 1 if v in one_u else 2 if v in two_u else -1 if v in neg_u else Poly.var("u%d" % v)
    try:
        with watchdog(120):
            val = gcmpy.clique_equation(tau, Poly.var("p"), [val_of(v) for v in V[1:]])
        if not isinstance(val, Poly):
            val = Poly.const(val)
        tr["terms"], tr["malformed"] = poly_terms(val)
    except Timeout:
        raise
    except Exception as ex:
        tr["raised"] = "%s: %s" % (type(ex).__name__, str(ex)[:70])
    return tr


def run_cycle(n):
    from gcmpy.message_passing.equations.chordless_cycle_equation import chordless_cycle_equation
    tr = {"kind": "cycle", "case": {"kind": "cycle", "n": n}, "n": n, "terms": [], "malformed": False, "raised": ""}
    try:
        val = chordless_cycle_equation(n, Poly.var("u"), Poly.var("p"))
        if not isinstance(val, Poly):
            val = Poly.const(val)
        for mono, c in val.terms.items():
            d = dict(mono)
            if set(d) - {"p", "u"} or c.denominator != 1:
                tr["malformed"] = True
            tr["terms"].append({"a": d.get("p", 0), "b": d.get("u", 0), "c": int(c.numerator) if c.denominator == 1 else 0})
        tr["terms"].sort(key=lambda t: (t["a"], t["b"]))
    except Exception as ex:
        tr["raised"] = "%s: %s" % (type(ex).__name__, str(ex)[:70])
    return tr


def run_count(n, k, with_qq):
    import gcmpy
    tr = {"kind": "count", "case": {"kind": "count", "n": n, "k": k, "with_qq": with_qq}, "n": n, "k": k, "q": 0, "q_small": True,
          "q_raised": "", "have_qq": bool(with_qq), "qq": 0, "qq_raised": ""}
    try:
        q = gcmpy.Q(n, k)
        tr["q_small"] = isinstance(q, int) and abs(q) < 2 ** 31
        tr["q"] = int(q) if tr["q_small"] else 0
    except Exception as ex:
        tr["q_raised"] = type(ex).__name__
    if with_qq:
        try:
            tr["qq"] = int(gcmpy.QQ(n, k))
        except Exception as ex:
            tr["qq_raised"] = type(ex).__name__
    return tr


def run_countmod(n, k):
    import gcmpy
    tr = {"kind": "countmod", "case": {"kind": "countmod", "n": n, "k": k}, "n": n, "k": k, "q_raised": "", "residues": [0] * 5}
    try:
        q = gcmpy.Q(n, k)
        tr["residues"] = [int(q % p) for p in PRIMES]
    except Exception as ex:
        tr["q_raised"] = type(ex).__name__
    return tr


def run_ncg(case):
    import gcmpy
    import networkx as nx
    G = nx.Graph(name=case.get("gname", ""))           # gcmpy names its motif graphs ("4-clique", "<focal>-<id>"); a name is not an identity
    G.add_nodes_from(case["V"])
    G.add_edges_from([tuple(e) for e in case["E"]])
    A = list(case["A"])
    focal = case["focal"]
    tr = {"kind": "ncg", "case": case, "E": [list(e) for e in case["E"]], "A": A, "k": case["k"], "got": -1, "raised": ""}
    try:
        tr["got"] = int(gcmpy.number_of_connected_graphs(G, [v for v in A if v != focal], int(str(focal)), case["k"]))
    except Exception as ex:
        tr["raised"] = "%s: %s" % (type(ex).__name__, str(ex)[:70])
    return tr


def run_perc(case):
    """case: V, E, a, b (phi = a/b), mode: 'tree' (whole aligned RNG tree) | ('seed', s, runs)"""
    import gcmpy
    import networkx as nx
    G = nx.Graph()
    G.add_nodes_from(case["V"])
    if case.get("pre_E"):
        # history: the SAME graph object was percolated before with other edges (same number of them), then edited in place
        G.add_edges_from([tuple(e) for e in case["pre_E"]])
        try:
            Oracle().run_seeded(5, lambda: gcmpy.bond_percolate(G, 0.5))
        except Exception:
            pass
        G.remove_edges_from(list(G.edges()))
    G.add_edges_from([tuple(e) for e in case["E"]])
    for i, (x, y) in enumerate(G.edges()):
        G.edges[x, y]["topology"] = "t%d" % (i % 2)       # annotated as gcmpy's own networks are
        G.edges[x, y]["motif_ids"] = i
    es = [[int(x), int(y)] for x, y in G.edges()]
    snap = lambda: (sorted(G.nodes(data=True), key=lambda z: z[0]), sorted((min(x, y), max(x, y), sorted(d.items())) for x, y, d in G.edges(data=True)))
    before = snap()
    if case.get("pre_abort") is not None:
        # crash point: a percolation of this very graph was abandoned part-way (also inside networkx); the input must be as it
        # was (judged through `input_same` below, whose reference snapshot was taken BEFORE the abandoned call) and the judged
        # percolation exact
        from ..crash import abort_frac
        Gc = G.copy()
        try:
            Oracle().run_seeded(7, lambda: abort_frac(lambda: gcmpy.bond_percolate(Gc, 0.5), lambda: gcmpy.bond_percolate(G, 0.5), case["pre_abort"], deep=True))
        except Exception:
            pass
    N = G.order()
    a, b = case["a"], case["b"]
    phi = a / b
    tr = {"kind": "perc", "case": case, "V": sorted(G.nodes()), "E": es, "a": a, "b": b, "leaves": [], "dist": [], "dist_offgrid": False, "exhaustive": False,
          "draws_known": True, "input_same": True, "raised": ""}
    from ..exact import decode
    orc = Oracle()
    try:
        if case["mode"][0] == "tree":
            trails = []
            dist, last_trail = {}, None
            for val, trail, w_ in orc.enumerate(lambda: gcmpy.bond_percolate(G, phi), grid=b, max_leaves=case.get("max_leaves", 70000)):
                trails.append((val, [t[2] for t in trail]))
                last_trail = trail
                n, ok = decode(val, N)
                dist[n] = dist.get(n, 0) + w_
                draws = [t[2] for t in trail if t[0] == "r"]
                if len(draws) != len(es):
                    tr["draws_known"] = False
                    draws = (draws + [0] * len(es))[:len(es)]
                tr["leaves"].append({"draws": draws, "n": n, "ok": bool(ok)})
            # the law of the result over the WHOLE decision tree, with exact leaf weights: however many draws a leaf took
            # (an implementation may skip draws that cannot matter), P(result = r/N) must be the percolation probability
            tr["exhaustive"] = last_trail is not None and Oracle.next_prefix(last_trail) is None
            D = b ** len(es)
            for r_, p_ in sorted(dist.items()):
                x = p_ * D
                if x.denominator != 1:
                    tr["dist_offgrid"] = True
                else:
                    tr["dist"].append([int(r_), int(x)])
            # the grid enumeration is exact only if the code uses each uniform draw solely through comparisons with multiples
            # of 1/b: replay leaves with the draws moved to both ends of their cells; any difference -> the law is not decided
            if 0 < a < b and trails:
                step = max(1, len(trails) // 40)
                for (val0, plan) in trails[::step]:
                    for cell in (0.002, 0.998):
                        o2 = Oracle(); o2.cell = cell
                        try:
                            v2 = o2.run_directed(plan, lambda: gcmpy.bond_percolate(G, phi), grid=b)
                        except OracleMismatch:
                            v2 = None
                        if v2 != val0:
                            tr["undecided"] = "the result depends on the uniform draws beyond comparisons with multiples of 1/%d (e.g. log / inverse transforms): the aligned grid does not represent the law" % b
                            break
                    if tr.get("undecided"):
                        tr["leaves"], tr["exhaustive"], tr["dist"] = [], False, []
                        break
            if es and 0 < a < b and len(tr["leaves"]) == 1 and not tr["draws_known"]:
                # no draw reached the random module: not enumerable unless the helper is deterministic
                from ..oracle import other_rng_used
                vals = {gcmpy.bond_percolate(G, phi) for _ in range(12)}
                if len(vals) > 1 or other_rng_used(lambda: gcmpy.bond_percolate(G, phi)):
                    tr["exhaustive"] = False
                    tr["undecided"] = "results vary although no draw reached the random module (other RNG)"
                    tr["leaves"], tr["dist"] = [], []
        else:
            rng = _r.Random(case["mode"][1])
            tr["draws_known"] = False
            for i in range(case["mode"][2]):
                val = orc.run_seeded(rng.randrange(1 << 30), lambda: gcmpy.bond_percolate(G, phi))
                n, ok = decode(val, N)
                tr["leaves"].append({"draws": [0] * len(es), "n": n, "ok": bool(ok)})
    except OracleMismatch as ex:
        tr["exhaustive"] = False
        tr["undecided"] = str(ex)
    except Exception as ex:
        tr["raised"] = "%s: %s" % (type(ex).__name__, str(ex)[:70])
    tr["input_same"] = snap() == before
    return tr


def connected_atlas(max_nodes, max_edges=99):
    import networkx as nx
    from networkx.generators.atlas import graph_atlas_g
    out = []
    for g in graph_atlas_g():
        if 2 <= g.number_of_nodes() <= max_nodes and g.number_of_edges() <= max_edges and nx.is_connected(g):
            out.append(g)
    return out


def key_fn(tr, v):
    return "%s/%s" % (tr["kind"], v["v"].split(":", 1)[-1])


def judge(chk, traces, label, parallel=8):
    return chk.judge("PercolationTrace", "PercolationTrace.cfg", traces, label=label, key_fn=key_fn, heap="3g", parallel=parallel)
