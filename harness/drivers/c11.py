"""C11 - MCMC rewiring preserves vertices, degrees and motif structure.
C12 shares this driver (PROPERTY selects the clause set of RewiringTrace.tla)."""
import json
import os
import random as _r

from . import rewire as R
from .. import tlc

PROPERTY = "C11"


def family():
    return json.load(open(os.path.join(tlc.SPEC_DIR, "rewiring_nets.json")))


def collect(chk, prop):
    thorough = chk.tier == "thorough"
    rng = _r.Random(chk.seed)
    traces = []
    aborted = timeouts = 0
    # (1) spec -> code: every first swap (ordered pair of same-topology edges) on every network of the MC family
    for f in family():
        es = [tuple(e) for e in f["g0"]]
        base = {"edges": es, "jd": [tuple(j) for j in f["jd"]], "tops": f["tops"], "target": f["target"], "limit": 0, "search": -1,
                "family": f["name"], "watchdog": 10}
        for e0 in es:
            for e1 in es:
                if e0[2] != e1[2] or e0 == e1:
                    continue
                # vertex labels are not promised to be 0..N-1: every third proposal runs on a relabelled copy of the network
                tr = R.execute(dict(base, rng=("plan", R.edge_index_plan(base, e0[:2], e1[:2])),
                                    labels=["id", "shift", "big"][(len(traces) + aborted) % 3]))
                if tr["aborted"] or tr["timeout"]:
                    aborted += 1
                    continue
                traces.append(tr)
    chk.exhaustive["every ordered pair of same-topology edges as first proposal on the %d networks of the MC family" % len(family())] = True
    chk.extra["first_swap_proposals_not_swappable"] = aborted
    from .. import crash
    crash.mc(chk)
    # (2) code -> spec: seeded runs with the recording wrapper, every history length up to the limit is in the trace
    plans = []
    for i in range(900 if thorough else (150 if prop == "C11" else 90)):
        n = rng.choice([10, 12, 16, 20, 24])
        sizes = rng.choice([[2], [2, 3], [2, 3], [2, 3, 4], [3], ["d"], [2, "d"], [3, "d"], ["w"], ["w", 2], [3, 2], [4, 2, 3]])   # name order need not be alphabetical
        mode = rng.choice(["random", "holes", "uniform", "assort"]) if prop == "C11" else rng.choice(["holes", "holes", "random"])
        plans.append((n, sizes, rng.choice([0.6, 0.9, 1.2]), mode, rng.choice([0, 1, 2, 3, 5, 8]), rng.choice([-1, -1, 5, 60])))
    for i in range(40 if thorough else 8):      # larger networks, longer histories
        plans.append((rng.choice([30, 45, 60]), rng.choice([[2, 3], [2, 3, 4]]), 0.8, rng.choice(["random", "holes"]),
                      rng.choice([15, 25, 40]), -1))
    if prop == "C12":
        # two interchangeable 2-clique topologies: the excess keys of both topologies live in the same small set, so a
        # pairing that is forbidden in one topology is typically a legal key of the other
        for i in range(300 if thorough else 40):
            plans.append((rng.choice([12, 16, 24]), [2, 2], rng.choice([1.0, 1.5]), rng.choice(["manyholes", "complement"]), rng.choice([1, 3, 6]), -1))
        # corners whose edges have different topologies (diamond hubs), many absent pairings
        for i in range(600 if thorough else 115):
            plans.append((rng.choice([12, 16, 24]), rng.choice([["w"], ["w"], ["w", 2], ["d"], [2, "d"], [3, 2], [3, 2], [4, 2, 3]]), rng.choice([0.8, 1.1, 1.5]), rng.choice(["complement", "complement", "holes", "random"]),
                          rng.choice([1, 3, 6]), -1))
    if prop == "C12":
        # longer histories on larger networks whose topology names are not in alphabetical order, most unused pairings removed
        for i in range(30 if thorough else 6):
            plans.append((60, rng.choice([[3, 2], [3, 2], [4, 2, 3]]), 0.9, "manyholes", 40, -1))
    for n, sizes, dens, mode, limit, search in plans:
        names = ["2-clique", "2-clique-blue"] if sizes == [2, 2] else None
        es, jd, tops = R.clean_network(rng, n, sizes, dens, names=names)
        if len(es) < 4:
            continue
        tg = R.make_target(rng, es, jd, tops, mode)
        case = {"edges": es, "jd": jd, "tops": tops, "target": tg, "limit": limit, "search": search,
                "rng": ("seed", rng.randrange(1 << 30)), "watchdog": 1 if n <= 24 else 15,
                "ejk_order": rng.choice(["names", "reversed"]),
                "keep_zero_keys": rng.random() < 0.5,          # zero pairings present as explicit 0.0 entries or absent keys
                "zero_draws": rng.choice([0, 0, 6]),           # some uniform draws are exactly 0.0
                "retarget": rng.random() < 0.25,               # built with another target, re-targeted through the setter
                "labels": rng.choice(["id", "id", "shift", "big"]),   # vertex labels 0..N-1, 1000 + 7v, or 70000 + v
                "jd_as_list": rng.random() < 0.3,             # joint degree annotations stored as lists instead of tuples
                "again": rng.random() < 0.5}                   # the object rewires once more afterwards: the first result must survive
        if rng.random() < 0.2:
            # object reuse: the same vertices carried other motifs (hence other joint degrees) in the network rewired before
            es0, jd0, _t = R.clean_network(rng, n, sizes, dens, names=names)
            if len(es0) >= 4:
                case["pre"] = {"edges": es0, "jd": jd0, "limit": rng.choice([0, 2, 4]), "seed": rng.randrange(1 << 30)}
        if "pre" not in case and rng.random() < 0.3:
            case["pre_abort"] = rng.random()
            case["pre_abort_seed"] = rng.randrange(1 << 30)
        tr = R.execute(case)
        if tr["timeout"]:
            timeouts += 1
            untouched = tr["input_annotations_same"] and tr["g0_after"] == tr["g0"]
            if not any(s["result"] for s in tr["steps"]) and untouched:
                continue          # inconclusive; but a run that damaged its input is decisive whether or not it returns
        traces.append(tr)
    # (3) parameter dictionaries that leave the optional limits to their documented defaults (10 x edges accepted swaps)
    for i in range(12 if thorough else 4):
        es, jd, tops = R.clean_network(rng, rng.choice([12, 16, 24, 40]), [2], 1.0)
        tg = R.make_target(rng, es, jd, tops, rng.choice(["uniform", "random"]))
        tr = R.execute({"edges": es, "jd": jd, "tops": tops, "target": tg, "limit": -1, "search": -1,
                        "rng": ("seed", rng.randrange(1 << 30)), "watchdog": 30, "defaults": True, "wrap": False})
        if tr["timeout"]:
            timeouts += 1
        traces.append(tr)
    # (4) chains of 2-cliques without the wrapper (pure input/output judgement; the self-loop scenario at scale)
    for i in range(30 if thorough else 8):
        es, jd, tops = R.clean_network(rng, rng.choice([12, 30, 60]), [2], 1.2)
        tg = R.make_target(rng, es, jd, tops, "random")
        traces.append(R.execute({"edges": es, "jd": jd, "tops": tops, "target": tg, "limit": rng.choice([5, 20, 40]), "search": -1,
                                 "rng": ("seed", rng.randrange(1 << 30)), "watchdog": 20, "wrap": False}))
    chk.extra["executions_stopped_by_watchdog (inconclusive, rewire may spin when no swap is acceptable)"] = timeouts
    return traces


def run(chk, prop=None):
    prop = prop or PROPERTY
    thorough = chk.tier == "thorough"
    chk.mc("MC_Rewiring", "MC_Rewiring_deep.cfg" if thorough else "MC_Rewiring.cfg", required=["Swap"], timeout=14400)
    if prop == "C11":
        chk.mc("MC_Rewiring", "MC_Rewiring_pinned_ids.cfg", expect_violation="C11_MotifShape")
        chk.mc("MC_Rewiring", "MC_Rewiring_noloop.cfg", expect_violation="C11_NoSelfLoop")
    else:
        chk.mc("MC_Rewiring", "MC_Rewiring_reversible.cfg", expect_violation="C12_Reversible")
    traces = collect(chk, prop)
    acc = [t for t in traces if any(s["result"] for s in t["steps"])]
    if not acc:
        raise Exception("vacuous batch: no recorded execution contains an accepted swap")
    chk.add_sample({k: v for k, v in acc[0].items() if k != "target"})
    verdicts = R.judge_parallel(chk, prop, traces, "runs")
    chk.extra["accepted_swaps_judged"] = sum(v["accepted"] for v in verdicts)
    chk.extra["swaps_explained_only_by_the_pinned_id_mechanism"] = sum(v["pinned_steps"] for v in verdicts)
    chk.extra["metropolis_calls_recomputed_by_tlc"] = sum(v["decided_calls"] for v in verdicts)
    chk.extra["metropolis_mismatches"] = sum(v["metro_mismatches"] for v in verdicts)
    chk.nontrivial = len({json.dumps(t["g0"]) + json.dumps(t["gout"]) for t in acc})
    chk.extra["rule"] = "one case = one rewire() call (network, target, limits, RNG resolution) with every Metropolis call recorded; non-trivial = at least one accepted swap; distinct by (input graph, output graph)"
    chk.assumptions += ["clean motif networks built by the harness (cliques on distinct vertices, edge-disjoint) and the MC family file",
                        "target weights w/64 so that the code's float products are exact; uniform draws on the 4096-point aligned grid",
                        "a rewire() call stopped by the watchdog is inconclusive (the loop has no bound when no swap is acceptable)"]
    return traces, verdicts


def replay(chk, data, prop=None):
    R.judge(chk, prop or PROPERTY, [R.execute(data["trace"]["case"])], "replay")
