"""Run TLC and parse what it prints.  TLC is the only judge in this framework:
Python drives gcmpy, records, encodes; every property clause is evaluated by TLC
(see DESIGN.md 2.1).  Exit-2 style failures are raised as MachineryError."""
import json
import os
import re
import shutil
import subprocess
import tempfile
import time

SPEC_DIR = os.path.join(os.path.dirname(os.path.dirname(os.path.abspath(__file__))), "spec")
JAR = "/opt/veriftools/tla/tla2tools.jar:/opt/veriftools/tla/CommunityModules-deps.jar"


class MachineryError(Exception):
    pass


class TLCResult:
    def __init__(self):
        self.rc = None
        self.out = ""
        self.generated = 0
        self.distinct = 0
        self.verdicts = []      # parsed JSON after "VERDICT "
        self.cases = []         # parsed JSON after "CASE "
        self.info = []          # parsed JSON after "INFO "
        self.violated = None    # name of violated invariant / property, if any
        self.coverage = {}      # action name -> (distinct, total)
        self.wall = 0.0
        self.cmd = ""

    def summary(self):
        return {"generated": self.generated, "distinct": self.distinct,
                "violated": self.violated, "wall_s": round(self.wall, 2), "cmd": self.cmd}


_PRINT_RE = re.compile(r'^"(VERDICT|CASE|INFO) (.*)"$')
_STATS_RE = re.compile(r'^(\d+) states generated, (\d+) distinct states found')
_SIMSTATS_RE = re.compile(r'^The number of states generated: (\d+)')
_COV_RE = re.compile(r'^<(\w+) line \d+, col \d+ to line \d+, col \d+ of module (\w+)(?: \([\d ]+\))?>: (\d+):(\d+)')
_INV_RE = re.compile(r'^Error: Invariant (\w+) is violated')
_PROP_RE = re.compile(r'^Error: Action property (\w+) is violated|^Error: Temporal property (\w+) was violated|^Error: Temporal properties were violated')


def _unescape(s):
    # TLC prints strings with \" and \\ escapes
    return json.loads('"' + s + '"')


def scratch_dir(prefix="verif-"):
    base = os.environ.get("TMPDIR") or "/tmp"
    return tempfile.mkdtemp(prefix=prefix, dir=base)


def run(module, cfg=None, env=None, workers=1, coverage=False, simulate=None, depth=None,
        seed=None, timeout=3600, dfid=None, extra=None, allow_violation=True, heap="4g",
        deque=False):
    """Run TLC on /verif/spec/<module>.tla with <cfg> (defaults to <module>.cfg)."""
    res = TLCResult()
    meta = scratch_dir("tlc-meta-")
    cfg = cfg or (module + ".cfg")
    # TLC leaves an empty tlc-<number> directory in java.io.tmpdir per run: keep it inside the scratch directory removed below
    cmd = ["java", "-XX:+UseParallelGC", "-Xmx" + heap, "-Xss64m", "-Djava.io.tmpdir=" + meta]
    if deque:
        cmd.append("-Dtlc2.tool.queue.IStateQueue=StateDeque")
    cmd += ["-cp", JAR, "tlc2.TLC", "-workers", str(workers), "-metadir", meta,
            "-noGenerateSpecTE", "-config", cfg]
    if coverage:
        cmd += ["-coverage", "1"]
    if simulate is not None:
        cmd += ["-simulate", simulate]
    if depth is not None:
        cmd += ["-depth", str(depth)]
    if seed is not None:
        cmd += ["-seed", str(seed)]
    if dfid is not None:
        cmd += ["-dfid", str(dfid)]
    if extra:
        cmd += list(extra)
    cmd.append(module + ".tla")
    e = dict(os.environ)
    if env:
        e.update({k: str(v) for k, v in env.items()})
    res.cmd = " ".join(cmd[cmd.index("tlc2.TLC"):])
    t0 = time.time()
    try:
        p = subprocess.run(cmd, cwd=SPEC_DIR, env=e, stdout=subprocess.PIPE,
                           stderr=subprocess.STDOUT, timeout=timeout, text=True)
        res.rc = p.returncode
        res.out = p.stdout
    except subprocess.TimeoutExpired as ex:
        res.rc = -9
        res.out = (ex.stdout or b"").decode() if isinstance(ex.stdout, bytes) else (ex.stdout or "")
        if simulate is None:
            shutil.rmtree(meta, ignore_errors=True)
            raise MachineryError("TLC timed out after %ss: %s" % (timeout, res.cmd))
    finally:
        res.wall = time.time() - t0
        shutil.rmtree(meta, ignore_errors=True)
    for line in res.out.splitlines():
        m = _PRINT_RE.match(line)
        if m:
            try:
                val = json.loads(_unescape(m.group(2)))
            except Exception as ex:  # pragma: no cover
                raise MachineryError("unparsable TLC print: %r (%s)" % (line[:200], ex))
            {"VERDICT": res.verdicts, "CASE": res.cases, "INFO": res.info}[m.group(1)].append(val)
            continue
        m = _STATS_RE.match(line)
        if m:
            res.generated, res.distinct = int(m.group(1)), int(m.group(2))
            continue
        m = _SIMSTATS_RE.match(line)
        if m:
            res.generated = res.distinct = int(m.group(1))
            continue
        m = _COV_RE.match(line)
        if m:
            name = m.group(1)
            d, t = int(m.group(3)), int(m.group(4))
            od, ot = res.coverage.get(name, (0, 0))
            res.coverage[name] = (od + d, ot + t)
            continue
        m = _INV_RE.match(line)
        if m:
            res.violated = m.group(1)
            continue
        m = _PROP_RE.match(line)
        if m:
            res.violated = m.group(1) or m.group(2) or "temporal"
    if res.rc not in (0, 12, 13) and not (res.rc == -9 and simulate is not None):
        lines = [l for l in res.out.splitlines() if not l.startswith('"VERDICT') and l.strip()]
        first = next((i for i, l in enumerate(lines) if l.startswith("Error") or "Exception" in l), max(0, len(lines) - 30))
        tail = "\n".join(l[:400] for l in lines[first:first + 30])
        raise MachineryError("TLC failed rc=%s cmd=%s\n%s" % (res.rc, res.cmd, tail))
    if res.rc in (12, 13) and not allow_violation:
        tail = "\n".join(res.out.splitlines()[-60:])
        raise MachineryError("TLC reported a violation of %s in a design model that must hold: %s\n%s"
                             % (res.violated, res.cmd, tail))
    return res


def _no_null(v):
    """TLC's Json module cannot read null: encode None as the string "null" (records only carry it inside `case`)"""
    if v is None:
        return "null"
    if isinstance(v, dict):
        return {str(k): _no_null(x) for k, x in v.items()}
    if isinstance(v, (list, tuple)):
        return [_no_null(x) for x in v]
    if isinstance(v, (bool, int, float, str)):
        return v if type(v) in (bool, int, float, str) else (bool(v) if isinstance(v, bool) else int(v) if isinstance(v, int) else float(v) if isinstance(v, float) else str(v))
    # numpy scalars and other number-like values a library under test may hand back: plain Python numbers in the trace
    import numbers
    if isinstance(v, numbers.Integral):
        return int(v)
    if isinstance(v, numbers.Real):
        return float(v)
    if hasattr(v, "tolist"):
        return _no_null(v.tolist())
    return v


def write_json(path, value):
    with open(path, "w") as f:
        json.dump(_no_null(value), f, separators=(",", ":"))
