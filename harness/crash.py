"""Crash points: abort a public call of the library at an arbitrary point and let the caller carry on.

The specifications model an `Abort` step that is enabled in every intermediate state of an operation
(StubMatching!Abort, Loaders!TryCandidate..Restore, DrawSet!AddUnhashable / RemoveAbsent, CrashPoints.tla for the
general shape): the operation is abandoned, an exception reaches the caller, the caller keeps the objects it
holds and later makes a *complete* call.  The listed properties quantify over complete calls, whatever happened
before them, so the judged record is always that later complete call.

`abort_at(fn, k)` runs fn() and raises InjectedAbort at the k-th source line executed inside the library
(files under <repo>/gcmpy/), exactly like a KeyboardInterrupt or a watchdog signal arriving there.  It is a
BaseException, so `except Exception` handlers inside the library do not swallow it.  No hook in the library is
needed: the interpreter's own tracing facility delivers the event.
"""
import os
import sys


class InjectedAbort(BaseException):
    pass


def _lib_prefix():
    import gcmpy
    return os.path.dirname(os.path.abspath(gcmpy.__file__)) + os.sep


_HARNESS = os.path.dirname(os.path.abspath(__file__)) + os.sep


def _traced(prefix, deep):
    """which frames count: the library's own files, or (deep) everything the library calls as well - networkx, the standard
    library - so that a call can also be abandoned while it is inside a generator or algorithm of a dependency"""
    if deep:
        return lambda fname: not fname.startswith(_HARNESS) and not fname.startswith("<")
    return lambda fname: fname.startswith(prefix)


def count_lines(fn, deep=False):
    """number of library source lines fn() executes (so that crash points can be spread over the whole call)"""
    prefix = _lib_prefix()
    counted = _traced(prefix, deep)
    n = [0]

    def local(frame, event, arg):
        if event == "line":
            n[0] += 1
        return local

    def glob(frame, event, arg):
        return local if counted(frame.f_code.co_filename) else None
    old = sys.gettrace()
    sys.settrace(glob)
    try:
        fn()
    except Exception:
        pass
    finally:
        sys.settrace(old)
    return n[0]


def abort_at(fn, k, deep=False):
    """run fn(); abort it at the k-th library line.  Returns 'aborted', 'finished' (fewer than k lines) or 'raised'."""
    prefix = _lib_prefix()
    counted = _traced(prefix, deep)
    n = [0]

    def local(frame, event, arg):
        if event == "line":
            n[0] += 1
            if n[0] == k:
                raise InjectedAbort("abort injected at line %s:%d" % (frame.f_code.co_filename, frame.f_lineno))
        return local

    def glob(frame, event, arg):
        return local if counted(frame.f_code.co_filename) else None
    old = sys.gettrace()
    sys.settrace(glob)
    try:
        fn()
        return "finished"
    except InjectedAbort:
        return "aborted"
    except Exception:
        return "raised"
    finally:
        sys.settrace(old)


def spread(rng, total, how_many):
    """crash points spread over a call of `total` library lines: the first lines, the last lines and random ones between"""
    if total <= 0:
        return []
    pts = {1, 2, 3, max(1, total - 1), max(1, total - 2), max(1, total // 2)}
    while len(pts) < min(how_many, total):
        pts.add(rng.randrange(1, total + 1))
    return sorted(pts)[:how_many] if len(pts) > how_many else sorted(pts)


def abort_frac(count_fn, fn, frac, deep=False):
    """abort fn() after the fraction `frac` of the library lines that count_fn() (the same work on separate objects) executes"""
    total = count_lines(count_fn, deep)
    if total <= 0:
        return "finished"
    return abort_at(fn, max(1, min(total, int(frac * total) + 1)), deep)


def mc(chk):
    """model side of the crash points: the library's discipline keeps the claim, the two deviations are refuted"""
    chk.mc("CrashPoints", "MC_CrashPoints.cfg", required=["Begin", "Step", "Return", "Abort"], workers=4)
    chk.mc("CrashPoints", "MC_CrashPoints_reset_at_end.cfg", expect_violation="CP_CompleteCallEqualsFresh", workers=4)
    chk.mc("CrashPoints", "MC_CrashPoints_register_before_fill.cfg", expect_violation="CP_CompleteCallEqualsFresh", workers=4)
