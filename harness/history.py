"""Process histories for the 'an earlier result must survive later calls' clauses.

The drivers keep the objects returned for the previous case(s) alive and re-read them after the current case.  When a
re-read differs, the trace of the current case is only reproducible together with the cases that preceded it: this wrapper
embeds them as case['prior_cases'], and on replay executes them first (from an empty history)."""


from .core import Timeout


def with_prior(inner, held, changed, depth=1):
    prev = []

    def execute(case):
        prior = case.get("prior_cases")
        if prior is not None:
            held.clear() if hasattr(held, "clear") else None
            del prev[:]
            for c in prior:
                try:
                    inner(c)
                except (Exception, Timeout):
                    pass
                prev.append(c)
            case = {k: v for k, v in case.items() if k != "prior_cases"}
        tr = inner(case)
        try:
            if changed(tr) and prev and isinstance(tr.get("case"), dict):
                tr["case"] = dict(tr["case"], prior_cases=list(prev[-depth:]))
        except Exception:
            pass
        prev.append(case)
        del prev[:-depth]
        return tr
    execute.__doc__ = inner.__doc__
    return execute
