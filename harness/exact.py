"""Exact arithmetic helpers (DESIGN.md 2.5).

Poly: a tiny multivariate polynomial class with Fraction coefficients that can be
*injected* into gcmpy's percolation equations in place of floats, so the code itself
returns the polynomial it computes.  Integral floats (0.0, 1.0, 3.0 ...) are accepted
as integers; any other float raises InexactFloat (the check then reports drift and
never guesses).
decode(x, D): dictated-denominator decoding of a float the spec says equals n/D.
"""
from fractions import Fraction
import numbers


class InexactFloat(Exception):
    pass


def _coef(x):
    if isinstance(x, bool):
        return Fraction(int(x))
    if isinstance(x, (int, Fraction)):
        return Fraction(x)
    if isinstance(x, float):
        if x != x or x in (float("inf"), float("-inf")):
            raise InexactFloat("non-finite float %r met during exact polynomial injection" % x)
        if x != int(x):
            # small dyadic rationals (the harness feeds u = 1/2, 2, ...) are exact as floats and stay exact under the few
            # multiplications the code performs on them; anything else is refused
            f = Fraction(x)
            if f.denominator <= 2 ** 12 and abs(f.numerator) < 2 ** 24:
                return f
            raise InexactFloat("non-integral float %r met during exact polynomial injection" % x)
        return Fraction(int(x))
    if isinstance(x, numbers.Integral):
        return Fraction(int(x))
    raise TypeError("cannot use %r as a polynomial coefficient" % (x,))


class Poly:
    """terms: dict mapping a monomial (sorted tuple of (var, exp)) to a Fraction."""
    __slots__ = ("terms",)

    def __init__(self, terms=None):
        self.terms = {k: v for k, v in (terms or {}).items() if v != 0}

    @staticmethod
    def var(name):
        return Poly({((name, 1),): Fraction(1)})

    @staticmethod
    def const(c):
        return Poly({(): _coef(c)})

    @staticmethod
    def lift(x):
        return x if isinstance(x, Poly) else Poly.const(x)

    def __add__(self, o):
        o = Poly.lift(o)
        t = dict(self.terms)
        for k, v in o.terms.items():
            t[k] = t.get(k, 0) + v
        return Poly(t)

    __radd__ = __add__

    def __neg__(self):
        return Poly({k: -v for k, v in self.terms.items()})

    def __sub__(self, o):
        return self + (-Poly.lift(o))

    def __rsub__(self, o):
        return Poly.lift(o) + (-self)

    def __mul__(self, o):
        o = Poly.lift(o)
        t = {}
        for k1, v1 in self.terms.items():
            d1 = dict(k1)
            for k2, v2 in o.terms.items():
                d = dict(d1)
                for var, e in k2:
                    d[var] = d.get(var, 0) + e
                k = tuple(sorted(d.items()))
                t[k] = t.get(k, 0) + v1 * v2
        return Poly(t)

    __rmul__ = __mul__

    def __truediv__(self, o):
        c = _coef(o)
        return Poly({k: v / c for k, v in self.terms.items()})

    def __pow__(self, e):
        e = _coef(e)
        if e.denominator != 1 or e < 0:
            raise InexactFloat("non-natural exponent %r" % (e,))
        e = int(e)
        r = Poly.const(1)
        b = self
        while e:
            if e & 1:
                r = r * b
            b = b * b
            e >>= 1
        return r

    def __eq__(self, o):
        if isinstance(o, (int, float, Fraction)):
            o = Poly.const(o)
        return isinstance(o, Poly) and self.terms == o.terms

    def __hash__(self):
        return hash(tuple(sorted(self.terms.items())))

    def __repr__(self):
        return "Poly(%r)" % (self.terms,)

    def subs(self, env):
        """evaluate at exact rationals: env maps variable name -> Fraction"""
        tot = Fraction(0)
        for k, v in self.terms.items():
            m = Fraction(v)
            for var, e in k:
                m *= Fraction(env[var]) ** e
            tot += m
        return tot


def decode(x, D, tol=1e-6):
    """x is claimed to equal n/D for an integer n: return (n, ok)."""
    try:
        y = float(x) * D
    except Exception:
        return 0, False
    if y != y or abs(y) > 2 ** 30:
        return 0, False
    n = int(round(y))
    return n, abs(y - n) < tol
