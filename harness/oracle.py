"""RNG oracle (DESIGN.md 2.3): makes the resolutions of gcmpy's random draws
('schedules') enumerable, replayable and recordable.

All of gcmpy's randomness goes through the module-level functions of `random`,
which are bound methods of the hidden instance `random._inst` and reach the
generator only through `self._randbelow(n)` and `self.random()`.  The oracle
installs instance attributes on `random._inst` (and the module attribute
`random.random`, which is a bound builtin captured at import) and restores them
afterwards.

Modes
  enumerate : depth-first enumeration of the whole decision tree; every leaf is
              one execution with exact weight prod 1/n_i.  `random()` is
              enumerated over an aligned grid of W midpoints (2j+1)/(2W).
  directed  : replay a given list of choices.
  seeded    : a private Mersenne Twister seeded by the caller; trail recorded.
"""
import random as _random
from fractions import Fraction


class OracleMismatch(Exception):
    """directed replay ran out of choices or met an arity it did not expect"""


class Oracle:
    def __init__(self):
        self.trail = []          # list of [kind, arity, value]; kind 'b' (_randbelow) or 'r' (random)
        self.mode = None
        self._plan = None
        self._pos = 0
        self._rng = None
        self.grid = None         # int or callable(call_index) -> int : size of the aligned grid for random()
        self.attached = False
        self.trail_truncated = False
        self._saved = None
        self.zero_draws = 0      # seeded-grid mode: 1 in `zero_draws` uniform draws is exactly 0.0
        self.cell = 0.5          # where inside its grid cell [j/W, (j+1)/W) a uniform draw lies (0.5 = the aligned midpoint)
        self.max_draws = 200000  # enumerate / directed: an execution with more draws is not enumerable (e.g. rejection sampling)
        self.max_trail = 2000000 # seeded: the trail stops being recorded beyond this length (a spinning run must not eat memory)

    # -- installation -----------------------------------------------------
    def _install(self):
        inst = _random._inst
        self._saved = (inst.__dict__.get("_randbelow", None), inst.__dict__.get("random", None),
                       _random.random)
        inst._randbelow = self._randbelow
        inst.random = self._random
        _random.random = self._random
        self.attached = True

    def _uninstall(self):
        inst = _random._inst
        sb, sr, modr = self._saved
        for name, val in (("_randbelow", sb), ("random", sr)):
            if val is None:
                try:
                    delattr(inst, name)
                except AttributeError:
                    pass
            else:
                setattr(inst, name, val)
        _random.random = modr
        self.attached = False

    # -- the two primitives -------------------------------------------------
    def _next(self, kind, n):
        if self.mode == "seeded":
            if len(self.trail) >= self.max_trail:
                self.trail_truncated = True
                del self.trail[self.max_trail // 2:]
            v = self._rng._randbelow(n) if kind == "b" else None
            if kind == "r":
                if self.grid:                     # seeded-grid: a uniformly chosen point of the aligned grid
                    if self.zero_draws and self._rng._randbelow(self.zero_draws) == 0:
                        self.trail.append(["r", self.grid, -1])     # the boundary value 0.0 (random() lies in [0, 1))
                        return 0.0
                    j = self._rng._randbelow(self.grid)
                    self.trail.append(["r", self.grid, j])
                    return (2 * j + 1) / (2.0 * self.grid)
                x = self._rng.random()
                self.trail.append(["r", 0, x])
                return x
            self.trail.append(["b", n, v])
            return v
        # enumerate / directed: choose index in range(n)
        if self._pos >= self.max_draws:
            raise OracleMismatch("more than %d draws in one execution: its decision tree is not enumerable" % self.max_draws)
        if self._pos < len(self._plan):
            v = self._plan[self._pos]
            if self.mode == "directed" and not (0 <= v < n):
                raise OracleMismatch("choice %d out of range(%d) at position %d" % (v, n, self._pos))
            if v >= n:  # enumerate: tree changed shape under us (non-deterministic code)
                raise OracleMismatch("enumeration met arity %d < planned choice %d" % (n, v))
        else:
            if self.mode == "directed":
                raise OracleMismatch("directed plan exhausted at position %d" % self._pos)
            v = 0
        self._pos += 1
        self.trail.append([kind, n, v])
        return v

    def _randbelow(self, n):
        return self._next("b", n)

    def _random(self):
        if self.mode == "seeded":
            return self._next("r", 0)
        w = self.grid(len(self.trail)) if callable(self.grid) else self.grid
        if not w:
            raise OracleMismatch("random() called but no aligned grid configured")
        j = self._next("r", w)
        return (j + self.cell) / float(w)

    # -- drivers ----------------------------------------------------------
    def run_seeded(self, seed, fn, grid=None):
        self.mode, self._rng, self.trail, self.grid = "seeded", _random.Random(seed), [], grid
        self._install()
        try:
            return fn()
        finally:
            self._uninstall()

    def run_directed(self, plan, fn, grid=None):
        self.mode, self._plan, self._pos, self.trail, self.grid = "directed", list(plan), 0, [], grid
        self._install()
        try:
            return fn()
        finally:
            self._uninstall()

    def run_open(self, prefix, fn, grid=None):
        """one enumeration-mode run: follow `prefix`, then take choice 0 everywhere"""
        self.mode, self._plan, self._pos, self.trail, self.grid = "enumerate", list(prefix), 0, [], grid
        self._install()
        try:
            return fn()
        finally:
            self._uninstall()

    @staticmethod
    def next_prefix(trail):
        """odometer step: the prefix of the next leaf after a run with this trail, or None"""
        p = [t[2] for t in trail]
        i = len(p) - 1
        while i >= 0 and p[i] + 1 >= trail[i][1]:
            i -= 1
        if i < 0:
            return None
        return p[:i] + [p[i] + 1]

    @staticmethod
    def weight(trail):
        w = Fraction(1)
        for _k, n, _v in trail:
            w /= n
        return w

    def enumerate(self, fn, grid=None, max_leaves=None):
        """Yield (result, trail, weight Fraction) for every leaf of fn's decision tree."""
        self.mode, self.grid = "enumerate", grid
        plan = []
        leaves = 0
        while True:
            self._plan, self._pos, self.trail = plan, 0, []
            self._install()
            try:
                result = fn()
            finally:
                self._uninstall()
            trail = [list(t) for t in self.trail]
            w = Fraction(1)
            for _, n, _v in trail:
                w /= n
            yield result, trail, w
            leaves += 1
            if max_leaves is not None and leaves >= max_leaves:
                return
            # odometer: advance the deepest choice that still has alternatives
            plan = [t[2] for t in trail]
            i = len(plan) - 1
            while i >= 0 and plan[i] + 1 >= trail[i][1]:
                i -= 1
            if i < 0:
                return
            plan = plan[:i] + [plan[i] + 1]


def other_rng_used(fn):
    """True if calling fn() advances the state of Python's or numpy's global generator (used to recognise randomness that does not
    pass through the oracle's two primitives, e.g. getrandbits or numpy): run OUTSIDE any oracle"""
    s0 = _random.getstate()
    try:
        import numpy as _np
        n0 = _np.random.get_state()
        n0 = (n0[1].tobytes(), n0[2])
    except Exception:
        _np, n0 = None, None
    fn()
    if _random.getstate() != s0:
        return True
    if _np is not None:
        n1 = _np.random.get_state()
        if (n1[1].tobytes(), n1[2]) != n0:
            return True
    return False


def shuffle_plan_for(target_perm):
    """Fisher-Yates (CPython: for i in reversed(range(1,n)): j=randbelow(i+1); swap) choices
    that turn the identity arrangement [0..n-1] into `target_perm` (list: position -> original index)."""
    n = len(target_perm)
    cur = list(range(n))
    want = list(target_perm)
    plan = []
    for i in reversed(range(1, n)):
        j = cur.index(want[i])
        assert j <= i
        plan.append(j)
        cur[i], cur[j] = cur[j], cur[i]
    assert cur == want
    return plan
