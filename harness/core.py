"""Shared plumbing for every check: MC runs, JUDGE runs, verdict policy, known
findings, replay files, evidence (DESIGN.md 2.4, 2.7, 3)."""
import json
import os
import signal
import threading
import sys
import time
import shutil

from . import tlc
from .tlc import MachineryError

ROOT = os.path.dirname(os.path.dirname(os.path.abspath(__file__)))
EVIDENCE_DIR = os.environ.get("VERIF_EVIDENCE_DIR") or os.path.join(ROOT, "evidence")
REPLAY_DIR = os.environ.get("VERIF_REPLAY_DIR") or os.path.join(ROOT, "replay")
KNOWN_FILE = os.path.join(ROOT, "known_findings.txt")


class Timeout(BaseException):
    """raised by the watchdog's one-shot alarm.  Not an Exception: a generic `except Exception` in the code under test or in
    a recording wrapper must not be able to swallow it (a swallowed alarm never fires again and the run spins for ever)"""


class watchdog:
    """alarm-based timeout around one execution of the real code"""

    def __init__(self, seconds):
        self.seconds = seconds

    def _fire(self, *_):
        raise Timeout()

    def __enter__(self):
        self._old = signal.signal(signal.SIGALRM, self._fire)
        signal.setitimer(signal.ITIMER_REAL, self.seconds)

    def __exit__(self, *exc):
        signal.setitimer(signal.ITIMER_REAL, 0)
        signal.signal(signal.SIGALRM, self._old)
        return False


def load_known():
    known = []
    if os.path.exists(KNOWN_FILE):
        for line in open(KNOWN_FILE):
            line = line.strip()
            if line.startswith("known:"):
                # known: property=C11 key=<key> <text>
                parts = line.split()
                d = {"text": line}
                for p in parts[1:3]:
                    if "=" in p:
                        k, v = p.split("=", 1)
                        d[k] = v
                known.append(d)
    return known


class Check:
    def __init__(self, pid, tier, seed):
        self.pid, self.tier, self.seed = pid, tier, seed
        self.t0 = time.time()
        self.states = 0
        self.transitions = 0
        self.traces = 0
        self.samples = []
        self.violations = []      # dicts: clause, key, case/trace
        self.drift = []
        self.not_decided = []
        self.mc_runs = []
        self.judge_runs = []
        self.actions_covered = {}
        self.extra = {}
        self.exhaustive = {}
        self.assumptions = []
        self.rng_leaves = 0
        self.nontrivial = 0
        self.scratch = tlc.scratch_dir("verif-%s-" % pid)
        self.quiet = False
        self.replay_mode = False
        self._lock = threading.Lock()

    def log(self, *a):
        if not self.quiet:
            print("[%s %6.1fs]" % (self.pid, time.time() - self.t0), *a, flush=True)

    # ---------------------------------------------------------------- MC
    def mc(self, module, cfg, required=(), workers=16, expect_violation=None, timeout=3600, temporal=False, **kw):
        """Exhaustive TLC run of a design model.  Must hold, unless expect_violation names the
        invariant that a *_pinned deviation config is required to break (shows the model is able
        to express the defect).  Vacuity: every action in `required` must have been taken."""
        run_cfg = cfg
        if expect_violation is not None:
            # keep only the targeted property so that the reported violation is deterministic with many workers
            lines = []
            for line in open(os.path.join(tlc.SPEC_DIR, cfg)):
                w = line.split()
                if w and w[0] in ("INVARIANT", "PROPERTY") and expect_violation not in w[1:]:
                    continue
                lines.append(line)
            run_cfg = os.path.join(self.scratch, "only-%s-%s" % (expect_violation, cfg))
            with open(run_cfg, "w") as f:
                f.writelines(lines)
        r = tlc.run(module, run_cfg, workers=workers, coverage=True, timeout=timeout,
                    allow_violation=expect_violation is not None, **kw)
        if expect_violation is not None:
            if r.violated != ("temporal" if temporal else expect_violation):   # TLC does not name a violated liveness property
                raise MachineryError("%s/%s: expected the deviation model to violate %s, TLC said %r"
                                     % (module, cfg, expect_violation, r.violated))
        else:
            for a in required:
                if r.coverage.get(a, (0, 0))[1] == 0:
                    raise MachineryError("%s/%s: vacuous model, action %s never taken (coverage %r)"
                                         % (module, cfg, a, r.coverage))
        self.states += r.distinct
        self.transitions += r.generated
        for a, (d, t) in r.coverage.items():
            if t:
                self.actions_covered[a] = self.actions_covered.get(a, 0) + t
        s = r.summary()
        s.update({"module": module, "cfg": cfg, "expect_violation": expect_violation})
        self.mc_runs.append(s)
        self.log("MC %s/%s: %d distinct / %d generated states%s in %.1fs" %
                 (module, cfg, r.distinct, r.generated,
                  (" (deviation model violates %s as required)" % expect_violation) if expect_violation else "",
                  r.wall))
        return r

    # ------------------------------------------------------------- JUDGE
    def judge(self, module, cfg, traces, label="", env=None, timeout=3600, key_fn=None, heap="4g",
              count_traces=True, parallel=1):
        """Batch trace validation: TLC gives one total verdict per recorded execution.
        parallel > 1: the batch is cut into that many chunks judged by concurrent TLC processes."""
        if not traces:
            return []
        if parallel > 1 and len(traces) >= 2:
            parallel = min(parallel, len(traces))
            from concurrent.futures import ThreadPoolExecutor
            n = len(traces)
            cuts = [(i * n) // parallel for i in range(parallel + 1)]
            chunks = [traces[cuts[i]:cuts[i + 1]] for i in range(parallel)]
            with ThreadPoolExecutor(max_workers=parallel) as ex:
                futs = [ex.submit(self._judge_one, module, cfg, ch, "%s/%d" % (label, i), env, timeout, key_fn, heap, count_traces, i)
                        for i, ch in enumerate(chunks) if ch]
                res = [f.result() for f in futs]
            out = []
            for (vs, off) in zip(res, cuts):
                for v in vs:
                    v = dict(v); v["tid"] += off
                    out.append(v)
            return out
        return self._judge_one(module, cfg, traces, label, env, timeout, key_fn, heap, count_traces, 0)

    def _judge_one(self, module, cfg, traces, label, env, timeout, key_fn, heap, count_traces, slot):
        self._judge_seq = getattr(self, "_judge_seq", 0) + 1
        path = os.path.join(self.scratch, "%s-%d-%d.json" % (module, self._judge_seq, slot))
        tlc.write_json(path, traces)
        e = {"TRACE_FILE": path}
        if env:
            e.update(env)
        r = tlc.run(module, cfg, env=e, workers=1, timeout=timeout, heap=heap)
        if r.violated:
            raise MachineryError("judge spec %s itself reported violation of %s" % (module, r.violated))
        if len(r.verdicts) != len(traces):
            tail = "\n".join(r.out.splitlines()[-30:])
            raise MachineryError("judge %s gave %d verdicts for %d traces\n%s"
                                 % (module, len(r.verdicts), len(traces), tail))
        with self._lock:
            self.states += r.distinct
            self.transitions += r.generated
            if count_traces:
                self.traces += len(traces)
            verdicts = sorted(r.verdicts, key=lambda v: v["tid"])
            nviol = ndrift = 0
            for v in verdicts:
                tr = traces[v["tid"] - 1]
                if v["v"].startswith("violation"):
                    nviol += 1
                    self.add_violation(v["v"], tr, v, key_fn(tr, v) if key_fn else None)
                elif v["v"].startswith("drift"):
                    ndrift += 1
                    if len(self.drift) < 20:
                        self.drift.append({"verdict": v, "label": label})
            self.judge_runs.append({"module": module, "cfg": cfg, "label": label, "traces": len(traces),
                                    "violations": nviol, "drift": ndrift, "distinct": r.distinct,
                                    "wall_s": round(r.wall, 2)})
            self.log("JUDGE %s %s: %d traces, %d violation, %d drift, %d states in %.1fs"
                     % (module, label, len(traces), nviol, ndrift, r.distinct, r.wall))
        return verdicts

    def add_violation(self, clause, trace, verdict=None, key=None):
        self.violations.append({"clause": clause, "trace": trace, "verdict": verdict, "key": key})

    def add_sample(self, s, limit=4):
        if len(self.samples) < limit:
            self.samples.append(s)

    # ------------------------------------------------------------ finish
    def finish(self):
        os.makedirs(EVIDENCE_DIR, exist_ok=True)
        os.makedirs(REPLAY_DIR, exist_ok=True)
        known = [k for k in load_known() if k.get("property") == self.pid]
        real = []
        seen_known = {}
        for v in self.violations:
            hit = None
            for k in known:
                if v.get("key") is not None and k.get("key") == v["key"]:
                    hit = k
            if hit:
                seen_known[hit["text"]] = hit
            else:
                real.append(v)
        for k in seen_known.values():
            print("KNOWN-FINDING: property=%s %s" % (self.pid, k["text"]))
        paths = []
        if self.replay_mode:
            shutil.rmtree(self.scratch, ignore_errors=True)
            for v in real:
                print("VIOLATION property=%s replay=%s clause=%s" % (self.pid, self.replay_mode, v["clause"]))
            if not real:
                print("OK property=%s replay reproduced no violation" % self.pid)
            return 1 if real else 0
        for n, v in enumerate(real[:3]):
            p = os.path.join(REPLAY_DIR, "%s-%s-%d-%d.json" % (self.pid, self.tier, self.seed, n))
            with open(p, "w") as f:
                json.dump({"property": self.pid, "clause": v["clause"], "verdict": v["verdict"],
                           "key": v.get("key"), "trace": v["trace"]}, f, indent=1, default=str)
            paths.append(p)
        if not self.samples:
            self.samples.append({"note": "no sample recorded"})
        cov = {
            "states": max(1, self.states),
            "transitions": max(1, self.transitions),
            "traces_validated_against_impl": self.traces,
            "samples": self.samples,
            "distinct_nontrivial": self.nontrivial,
            "rng_leaves_enumerated": self.rng_leaves,
            "mc_runs": self.mc_runs,
            "judge_runs": self.judge_runs,
            "actions_covered": self.actions_covered,
            "drift": self.drift,
            "not_decided": self.not_decided,
            "exhaustive_families": self.exhaustive,
            "exhaustive": bool(self.exhaustive) and all(self.exhaustive.values()),
            "known_findings_seen": sorted(seen_known),
        }
        cov.update(self.extra)
        ev = {
            "property_id": self.pid, "tier": self.tier, "seed": self.seed,
            "level": "model_checking", "coverage": cov, "assumptions": self.assumptions,
            "wall_s": round(time.time() - self.t0, 2), "violations": len(real),
        }
        with open(os.path.join(EVIDENCE_DIR, self.pid + ".json"), "w") as f:
            json.dump(ev, f, indent=1, default=str)
        shutil.rmtree(self.scratch, ignore_errors=True)
        for d in self.drift[:5]:
            print("DRIFT property=%s %s" % (self.pid, json.dumps(d, default=str)[:300]))
        for nd in self.not_decided:
            print("NOT-DECIDED property=%s %s" % (self.pid, nd))
        if real:
            for v, p in zip(real, paths):
                print("VIOLATION property=%s replay=%s clause=%s" % (self.pid, p, v["clause"]))
            if len(real) > len(paths):
                print("(%d further violations not written)" % (len(real) - len(paths)))
            return 1
        print("OK property=%s tier=%s states=%d traces=%d wall=%.1fs"
              % (self.pid, self.tier, self.states, self.traces, time.time() - self.t0))
        return 0

    def abort(self):
        shutil.rmtree(self.scratch, ignore_errors=True)


def import_gcmpy():
    """gcmpy is imported from /repo's working tree at run time; nothing is cached."""
    repo = os.environ.get("GCMPY_REPO", "/repo")
    if repo not in sys.path:
        sys.path.insert(0, repo)
    sys.dont_write_bytecode = True
    import gcmpy  # noqa
    return gcmpy
