#!/venv/bin/python
"""Writes spec/rewiring_nets.json: the family of small clean motif networks used by MC_Rewiring and by the
C11/C12 drivers (deterministic; re-run only to change the family)."""
import json, os, random, sys
sys.path.insert(0, os.path.dirname(os.path.dirname(os.path.abspath(__file__))))
sys.path.insert(0, "/repo")
from harness.drivers import rewire as R

rng = random.Random(11)
nets = []
def add(name, n, es, mode):
    jd = []
    tops = ["2-clique", "3-clique"]
    for v in range(n):
        c2 = sum(1 for a, b, t, m in es if v in (a, b) and t == "2-clique")
        c3 = len({m for a, b, t, m in es if v in (a, b) and t == "3-clique"})
        jd.append((c2, c3))
    tg = R.make_target(rng, es, jd, tops, mode)
    nets.append({"name": name, "V": list(range(n)), "jd": [list(j) for j in jd], "tops": tops, "target": tg,
                 "g0": sorted([a, b, t, m] for a, b, t, m in es)})
def tri(a, b, c, m): return [(a, b, "3-clique", m), (a, c, "3-clique", m), (b, c, "3-clique", m)]
def e2(a, b, m): return [(min(a, b), max(a, b), "2-clique", m)]
def k4(a, b, c, d, m):
    import itertools
    return [(x, y, "3-clique", m) for x, y in itertools.combinations((a, b, c, d), 2)]
# hand-made, heterogeneous joint degrees so that swaps change the pairing keys
A = tri(0, 1, 2, 0) + tri(3, 4, 5, 1) + e2(0, 6, 2) + e2(0, 7, 3) + e2(3, 6, 4)
B = e2(0, 1, 0) + e2(1, 2, 1) + e2(2, 3, 2) + e2(1, 4, 3) + e2(3, 5, 4)            # chains of 2-cliques (self-loop scenario)
C = tri(0, 1, 2, 0) + e2(2, 3, 1) + e2(4, 5, 2) + tri(4, 6, 7, 3) + e2(0, 4, 4) + e2(1, 5, 5)
D = k4(0, 1, 2, 3, 0) + k4(4, 5, 6, 7, 1) + e2(0, 4, 2) + e2(0, 5, 3) + e2(1, 6, 4)
E = tri(0, 1, 2, 0) + tri(2, 3, 4, 1) + tri(5, 6, 7, 2) + e2(0, 5, 3) + e2(3, 6, 4) + e2(3, 7, 5)
add("A-full", 8, A, "random"); add("A-holes", 8, A, "holes"); add("B-full", 6, B, "random"); add("C-full", 8, C, "random")
add("C-holes", 8, C, "holes"); add("D-full", 8, D, "random"); add("E-full", 8, E, "assort")
# a network with multi-topology corners: diamonds (rim edges "dia-outer", chord "dia-inner") and 2-cliques
r2 = random.Random(5)
while True:
    es, jd, tops = R.clean_network(r2, 8, [2, "d"], 0.75)
    if sum(1 for e in es if e[2] == "dia-inner") >= 2 and sum(1 for e in es if e[2] == "2-clique") >= 2:
        break
nets.append({"name": "F-diamonds", "V": list(range(8)), "jd": [list(j) for j in jd], "tops": tops,
             "target": R.make_target(rng, es, jd, tops, "random"), "g0": sorted([a, b, t, m] for a, b, t, m in es)})
# networks of wedges (a -A- c -B- b): every centre is a corner with one edge of each of two topologies; holed targets
for k, seed in enumerate((21, 22)):
    r3 = random.Random(seed)
    es, jd, tops = R.clean_network(r3, 9, ["w"], 1.0)
    nets.append({"name": "G-wedges-%d" % k, "V": list(range(9)), "jd": [list(j) for j in jd], "tops": tops,
                 "target": R.make_target(r3, es, jd, tops, "holes"), "g0": sorted([a, b, t, m] for a, b, t, m in es)})
json.dump(nets, open(os.path.join(os.path.dirname(os.path.dirname(os.path.abspath(__file__))), "spec", "rewiring_nets.json"), "w"))
print(len(nets), "nets written")
