#!/usr/bin/env python3
"""prints the markdown table of all kept seeded changes (for DESIGN.md section 11)"""
import json, glob, os, re
rows = []
for d in sorted(glob.glob(os.path.join(os.path.dirname(os.path.dirname(os.path.abspath(__file__))), "seeded", "C*-m*"))):
    m = json.load(open(os.path.join(d, "meta.json")))
    notes = m.get("what_it_needs_to_manifest", "")
    first = next((l.strip("# ").strip() for l in notes.splitlines() if l.strip()), "")
    first = re.sub(r"^C\d+b? ?/ ?m\d ?[-:–] ?", "", first)[:110]
    det = m["detected_by"]
    missed = "MISSED" in det or "THOROUGH only" in det or "only" in det.split(";")[0] or ") after " in det
    rows.append((os.path.basename(d), first, det[:170], missed, det.startswith("NOT DETECTED")))
print("| change | what it is | detected by |\n|---|---|---|")
for n, f, d, _m, _n in rows:
    print("| %s | %s | %s |" % (n, f.replace("|", "/"), d.replace("|", "/")))
print("\n%d changes; %d needed a strengthening of the machinery first; %d are not detected (by decision - inputs outside the annotated types or the stated clauses -, tooling limits, or not reached yet: see the text above)"
      % (len(rows), sum(1 for r in rows if r[3]), sum(1 for r in rows if r[4])))
