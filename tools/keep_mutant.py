#!/usr/bin/env python3
"""keep_mutant.py <pid> <k> "<detected by: check ids / clause>"  - archive a confirmed seeded change under /verif/seeded/"""
import json, os, shutil, sys, re
pid, k, detected = sys.argv[1], sys.argv[2], sys.argv[3]
src = "/tmp/wt/%s/_out/m%s" % (pid, k)
prop = pid[:3]
off = {"": 0, "b": 2, "c": 4, "d": 6, "e": 9, "f": 11, "g": 13}[pid[3:]]
dst = "/verif/seeded/%s-m%s" % (prop, str(int(k) + off))
os.makedirs(dst, exist_ok=True)
for f in ("patch.diff", "demo.py"):
    shutil.copy(os.path.join(src, f), os.path.join(dst, f))
notes = open(os.path.join(src, "notes.md")).read() if os.path.exists(os.path.join(src, "notes.md")) else ""
conf = open("/tmp/confirm_out/%s-m%s.txt" % (pid, k)).read()
m = re.search(r"(\d+) failed, (\d+) passed", conf)
meta = {
    "property": prop,
    "origin": "independent sub-agent given only the property text and a scratch worktree",
    "what_it_needs_to_manifest": notes.strip()[:1500],
    "confirmed_by_me": {
        "patch_applies_to_repo_HEAD": "apply_rc=0" in conf,
        "demo_exit_on_clean_tree": int(re.search(r"demo_clean_rc=(\d+)", conf).group(1)),
        "demo_exit_with_change": int(re.search(r"demo_mut_rc=(\d+)", conf).group(1)),
        "full_suite_with_change": {"passed": int(m.group(2)), "failed_always_fail_marginal_tests": int(m.group(1))} if m else conf[-300:],
        "how": "tools/confirm_mutant.sh in a scratch worktree of /repo HEAD (removed afterwards)",
    },
    "detected_by": detected,
    "how_checked": "tools/try_mutant.sh <patch> <check ids> (scratch copy of /repo/gcmpy with the patch, quick tier)",
}
json.dump(meta, open(os.path.join(dst, "meta.json"), "w"), indent=1)
print("kept", dst)
