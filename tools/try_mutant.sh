#!/bin/sh
# usage: try_mutant.sh <patch.diff> <check id> [<check id> ...]   (env TIER=quick|thorough)
# Runs the registered checks against a scratch copy of /repo's gcmpy carrying the patch;
# evidence and replay files of these runs go to the scratch directory, never to /verif/evidence.
P="$1"; shift
W=$(mktemp -d /tmp/mutrun.XXXXXX)
cp -r /repo/gcmpy "$W/gcmpy"; find "$W" -name __pycache__ -prune -exec rm -rf {} \; 2>/dev/null
( cd "$W" && patch -s -p1 < "$P" ) || { echo "patch failed"; rm -rf "$W"; exit 2; }
mkdir -p "$W/ev" "$W/rp"
for id in "$@"; do
  GCMPY_REPO="$W" VERIF_EVIDENCE_DIR="$W/ev" VERIF_REPLAY_DIR="$W/rp" "$(dirname "$0")/../check" "$id" --tier "${TIER:-quick}" > "$W/$id.log" 2>&1
  echo "$id rc=$? $(grep -c '^VIOLATION' "$W/$id.log") violation lines; $(grep -m1 '^VIOLATION\|^OK\|^MACHINERY' "$W/$id.log" | cut -c1-200)"
done
rm -rf "$W"
