#!/venv/bin/python
"""Binding demonstration (DESIGN.md 3): for a representative recorded execution per judge, corrupt ONE recorded field
(or drop one event) and require TLC to reject exactly that trace while accepting the untouched one."""
import copy, os, sys
os.environ.setdefault("PYTHONHASHSEED", "0")
ROOT = os.path.dirname(os.path.dirname(os.path.abspath(__file__)))
sys.path.insert(0, ROOT)
from harness import core
core.import_gcmpy()
from harness.drivers import c20, stub, c01, c04, c05, c09, c10, c13, rewire, c17, perc, loop

def expect(chk, module, cfg, good, bad, label, env=None):
    vs = chk.judge(module, cfg, [good, bad], label=label, env=env, count_traces=False)
    ok = vs[0]["v"] == "ok" and vs[1]["v"].startswith("violation")
    print("%-34s untouched=%-8s corrupted=%s  %s" % (label, vs[0]["v"], vs[1]["v"][:60], "BOUND" if ok else "NOT BOUND"))
    return ok

chk = core.Check("SELFTEST", "quick", 1); chk.quiet = True
res = []
# C20: drop one event (the set then still contains an element the log says was removed) / corrupt len
t = c20.execute({"kind": "x", "usize": 3, "ops": [{"op": "add", "arg": 1}, {"op": "add", "arg": 2}, {"op": "remove", "arg": 1}, {"op": "observe", "arg": 0}]})
b = copy.deepcopy(t); del b["events"][2]
res.append(expect(chk, "DrawSetTrace", "DrawSetTrace.cfg", t, b, "C20 drop the remove event"))
b = copy.deepcopy(t); b["events"][1]["len"] = 3
res.append(expect(chk, "DrawSetTrace", "DrawSetTrace.cfg", t, b, "C20 corrupt one len"))
# C01/C02: move one vertex in one recorded callback call / one motif id
t = c01._strip(stub.execute({"gen": "fast", "via": "direct", "cfg": "f_edge_tri", "jds": [(1, 1), (1, 1), (2, 1)], "rng": ("seed", 5)}))
b = copy.deepcopy(t); b["calls"][0]["verts"][0] = (b["calls"][0]["verts"][0] + 1) % 3
res.append(expect(chk, "StubMatchingTrace", "StubMatchingTrace.cfg", t, b, "C01 change one slot of one call", {"PROPERTY": "C01"}))
b = copy.deepcopy(t); b["mid"][-1] = b["mid"][0]
res.append(expect(chk, "StubMatchingTrace", "StubMatchingTrace.cfg", t, b, "C02 reuse a motif id", {"PROPERTY": "C02"}))
# C04: swap topology of one edge in the projected graph
t = c04.execute({"kind": "x", "jds": [(1, 0), (1, 1), (0, 1)], "rows": [[0, 1, "a", 0], [1, 2, "b", 1]]})
b = copy.deepcopy(t); b["G"]["edges"][0]["top"] = "b" if b["G"]["edges"][0]["top"] == "a" else "a"
res.append(expect(chk, "ConversionTrace", "ConversionTrace.cfg", t, b, "C04 swap one edge attribute"))
# C05: one stub more than needed
t = c05.execute({"keys": [(1,), (2,)], "wts": [1, 1], "sizes": [3], "N": 2, "rng": ("seed", 4)}); t.pop("trail", None)
b = copy.deepcopy(t); b["out"][0][0] += 3
res.append(expect(chk, "SamplingTrace", "SamplingTrace.cfg", t, b, "C05 three extra stubs"))
# C09: drop one clique of the cover
t = c09.execute({"edges": [(1, 2), (2, 3), (1, 3), (3, 4)], "m0": 3, "rng": ("seed", 1)}); t.pop("trail", None)
b = copy.deepcopy(t); b["cover"] = b["cover"][:-1]
res.append(expect(chk, "EECCTrace", "EECCTrace.cfg", t, b, "C09 drop one cover clique"))
# C10: relabel one edge
t = c10.execute({"nodes": [0, 1, 2, 3], "edges": [(0, 1), (1, 2), (0, 2), (2, 3)], "limit": 0, "rng": ("seed", 1)})
b = copy.deepcopy(t); b["labels"][0]["id"] = 99
res.append(expect(chk, "MPCCTrace", "MPCCTrace.cfg", t, b, "C10 change one label id"))
# C13: perturb one matrix numerator
es, jd, tops = rewire.clean_network(__import__("random").Random(3), 8, [2, 3], 1.0)
t = c13.execute({"edges": es, "jd": jd, "tops": tops, "ncalls": 2})
b = copy.deepcopy(t); b["calls"][1]["matrices"][0]["rows"][0]["n"] += 1
res.append(expect(chk, "MixingTrace", "MixingTrace.cfg", t, b, "C13 +1 in one matrix entry"))
# C11: move one endpoint of one edge of the output graph
t = rewire.execute({"edges": es, "jd": jd, "tops": tops, "target": rewire.make_target(__import__("random").Random(1), es, jd, tops, "uniform"),
                    "limit": 1, "search": -1, "rng": ("seed", 2), "wrap": False})
b = copy.deepcopy(t); b["gout"][0][1] = (b["gout"][0][1] + 1) % 8 if (b["gout"][0][1] + 1) % 8 != b["gout"][0][0] else (b["gout"][0][1] + 2) % 8
b["gout_again"] = b["gout"]
res.append(expect(chk, "RewiringTrace", "RewiringTrace.cfg", dict(t, gout=t["g0"], gout_again=t["g0"]), b, "C11 move one end of one edge", {"PROPERTY": "C11"}))
# C17: one read too many in one update
t = c17.run_once({"motifs": [(10, [0, 1, 2], [(0, 1), (0, 2), (1, 2)]), (11, [0, 3], [(0, 3)]), (12, [1, 4], [(1, 4)])], "phi": 1, "iterations": 1})
b = copy.deepcopy(t)
u = next(x for x in b["updates"] if x["reads"]); u["reads"].append(u["reads"][0]); u["rx"].append(u["rx"][0])
res.append(expect(chk, "MessagePassingTrace", "MessagePassingTrace.cfg", t, b, "C17 one message read twice"))
# C15: perturb one coefficient
g = perc.connected_atlas(4)[5]
t = perc.run_auto({"V": list(g.nodes()), "E": [list(e) for e in g.edges()], "root": 0, "name": "x"})
b = copy.deepcopy(t); b["terms"][0]["c"] += 1
res.append(expect(chk, "PercolationTrace", "PercolationTrace.cfg", t, b, "C15 +1 in one coefficient"))
# LOOP (RewireLoop): drop one event / flip one suitability answer of a recorded control-flow trace
t = loop.execute({"edges": es, "jd": jd, "tops": tops, "target": rewire.make_target(__import__("random").Random(1), es, jd, tops, "uniform"),
                  "limit": 1, "search": 3, "seed": 4})
b = copy.deepcopy(t); i = next(i for i, e in enumerate(b["events"]) if e["ev"] == "corner"); del b["events"][i]
res.append(expect(chk, "RewireLoopTrace", "RewireLoopTrace.cfg", t, b, "LOOP drop one corner event"))
b = copy.deepcopy(t); e = next(e for e in b["events"] if e["ev"] == "suitable"); e["r"] = not e["r"]
res.append(expect(chk, "RewireLoopTrace", "RewireLoopTrace.cfg", t, b, "LOOP flip one suitability answer"))
chk.abort()
print("%d/%d bindings demonstrated" % (sum(res), len(res)))
sys.exit(0 if all(res) else 1)
