#!/bin/sh
# usage: confirm_mutant.sh <dir with patch.diff demo.py> <out-file>
# Confirms independently: patch applies to a clean worktree of /repo HEAD; demo passes without / fails with;
# the full baseline suite still passes with the change (47 stable tests; 4 marginal tests always fail).
D="$1"; OUT="$2"
W=$(mktemp -d /tmp/confirm.XXXXXX)
git -C /repo worktree add -q --detach "$W/t" HEAD || exit 2
cd "$W/t"
{
echo "== demo on clean tree"; PYTHONPATH="$W/t" timeout 300 /venv/bin/python -W ignore "$D/demo.py" >/dev/null 2>&1; echo "demo_clean_rc=$?"
echo "== apply"; git apply "$D/patch.diff"; echo "apply_rc=$?"
git diff --stat | tail -1
echo "== demo with change"; PYTHONPATH="$W/t" timeout 300 /venv/bin/python -W ignore "$D/demo.py" >/dev/null 2>&1; echo "demo_mut_rc=$?"
echo "== full suite with change"
timeout 3000 /venv/bin/python -m pytest -q -p no:cacheprovider --timeout=900 --continue-on-collection-errors 2>&1 | tail -8
} > "$OUT" 2>&1
cd /; git -C /repo worktree remove --force "$W/t"; rm -rf "$W"
