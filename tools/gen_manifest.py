#!/usr/bin/env python3-vt
"""Regenerates /verif/MANIFEST.json from the table below (one source of truth)."""
import json, os
ROOT = os.path.dirname(os.path.dirname(os.path.abspath(__file__)))

CHECKS = {}   # filled in below: id -> dict(text, note, technique, design_ref)
NOT_APPLICABLE = {}

def claim(pid, text, note, technique, ref):
    CHECKS[pid] = dict(text=text, note=note, technique=technique, ref=ref)

exec(open(os.path.join(ROOT, "tools", "manifest_table.py")).read())

m = {
    "version": 1,
    "setup_cmd": "./setup.sh",
    "hooks": {
        "guard": "GCMPY_VERIF",
        "enable": "no source hooks: checks import gcmpy from /repo's working tree in a fresh interpreter and observe it through public methods, user callbacks and the random module (DESIGN.md 7)",
        "baseline_off_cmd": "cd /repo && /venv/bin/python -m pytest -ra -q -p no:cacheprovider --timeout=900 --continue-on-collection-errors",
        "source_commits": [],
        "add_only": True,
    },
    "engines": [
        {"name": "tlc", "path": "/opt/veriftools/tla/tla2tools.jar", "serves_properties": sorted(CHECKS),
         "kind_free_text": "TLC 1.8 explicit-state model checker: exhaustive design-model runs (MC), behaviour generation (CASES) and batch trace validation of recorded gcmpy executions (JUDGE); specs in /verif/spec"},
    ],
    "checks": [],
    "notes": "Model-based verification with explicit TLA+ specifications; see DESIGN.md. ./check <id> --tier quick|thorough; exit 2 = machinery failure.",
    "not_applicable": [{"property_id": k, "reason": v} for k, v in sorted(NOT_APPLICABLE.items())],
}
for pid in sorted(CHECKS):
    c = CHECKS[pid]
    m["checks"].append({
        "property_id": pid,
        "quick_cmd": "./check %s --tier quick" % pid,
        "thorough_cmd": "./check %s --tier thorough" % pid,
        "evidence_file": "/verif/evidence/%s.json" % pid,
        "replay_cmd_template": "./check %s --replay {path}" % pid,
        "engine": "tlc",
        "level_claimed": {"category": "model_checking", "text": c["text"], "design_ref": c["ref"]},
        "level_note": c["note"],
        "technique": c["technique"],
    })
json.dump(m, open(os.path.join(ROOT, "MANIFEST.json"), "w"), indent=1)
import jsonschema  # noqa
jsonschema.validate(m, json.load(open("/root/.vp/MANIFEST.schema.json")))
print("MANIFEST.json written:", len(m["checks"]), "checks,", len(m["not_applicable"]), "not applicable")
