#!/bin/sh
# run every registered quick (or $1=thorough) check in sequence, summarise
T=${1:-quick}
for id in C01 C02 C03 C04 C05 C06 C07 C08 C09 C10 C11 C12 C13 C14 C15 C16 C17 C18 C20; do
  s=$(date +%s)
  out=$("$(dirname "$0")/../check" $id --tier $T 2>&1 | grep -E "^OK|^VIOLATION|^MACHINERY|^KNOWN-FINDING" | cut -c1-120 | tr '\n' ';')
  echo "$id $(( $(date +%s) - s ))s $out"
done
