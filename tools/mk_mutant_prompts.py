#!/venv/bin/python
"""mk_mutant_prompts.py <suffix> [<extra guidance>]  - writes /tmp/wt/<id><suffix>.prompt.txt for every claimed property.
The sub-agents that produce seeded changes get ONLY this text (the property as given in properties.jsonl) and a scratch
worktree /tmp/wt/<id><suffix> of /repo HEAD; nothing from /verif."""
import json, sys
suffix = sys.argv[1]
guidance = sys.argv[2] if len(sys.argv) > 2 else ""
tmpl = '''You are helping to evaluate a verification effort for the small pure-Python research library gcmpy (random graph generation with motifs, clique covers, MCMC rewiring, message passing on networkx graphs). You have your OWN scratch git worktree of the library at /tmp/wt/@ID@ . Do ALL of your work inside /tmp/wt/@ID@ ; never read or write /repo or /verif (they are out of bounds). Python is /venv/bin/python (run code with `cd /tmp/wt/@ID@ && PYTHONPATH=/tmp/wt/@ID@ /venv/bin/python ...`). There is no network.

Here is a semantic property that the library is supposed to satisfy:

@PROP@

YOUR TASK: produce TWO independent, different source changes to the library (files under /tmp/wt/@ID@/gcmpy/) each of which BREAKS this property while the library still imports and the EXISTING test suite still passes. Read the relevant source first (including helper modules the main code relies on: a change in a helper, a base class, a names/enum module or a data class is as good as one in the main function). Requirements for each change:
 * It must look like a realistic slip a maintainer could make (an off-by-one, a wrong index, a missed case in a refactor, state kept where it should be reset, a default argument, an aliasing bug, two cooperating sites that each look fine alone ...), not vandalism, and be small (a few lines).
 * It must be SUBTLE: it should need something specific to manifest - a rare input shape, a multi-step sequence of calls on one object or in one process, a particular resolution of the random draws, an unusual but legal parameter combination, a boundary value - rather than something ordinary use would expose at once. Aim for changes that a careful property-based test written from the property text alone would be likely to MISS unless it thinks of that specific situation. The two changes must use different mechanisms / different code sites.
 * The existing tests must still pass with it: run the relevant test files, e.g. `cd /tmp/wt/@ID@ && /venv/bin/python -m pytest -q -p no:cacheprovider test/<dir or file>` (run only the test files that import the modules you touched; 4 tests in test/joint_degree about 'marginal' (Poisson) fail on the UNCHANGED tree already - expected. test/tools/test_MCMC_rewiring.py takes 1-10 minutes and is unseeded/flaky (sometimes KeyError on the unchanged tree): run it only if your change touches code it uses, once, and once more if it fails with that KeyError).
 * Write a demonstration: a standalone script demo.py that exits 0 on the UNCHANGED tree and exits non-zero (with a short message on what went wrong) when your change is applied. It is run as `cd <tree> && PYTHONPATH=<tree> /venv/bin/python demo.py`. Make it deterministic (seed the RNG or enumerate) and fast (< 60 s). It should test the PROPERTY as stated, not an implementation detail.
@EXTRA@
DELIVERABLES, for k = 1, 2, under /tmp/wt/@ID@/_out/m<k>/ :
   patch.diff  - `git diff` of the change against HEAD (must apply cleanly with `git apply` to a clean checkout)
   demo.py     - the demonstration script
   notes.md    - 5-10 lines: what the change is, which clause of the property it breaks, what it needs in order to manifest, what you ran (commands + observed results with and without the change)
Before finishing: verify for each change that (a) demo.py exits 0 on the clean tree, (b) non-zero with the patch applied, (c) the relevant existing tests pass with the patch applied. Then restore the worktree to a clean state (`git checkout -- .`), leaving only the untracked _out/ directory. Finish by replying with a brief summary of the two changes.
'''
extra = {"C11": "IMPORTANT: the unchanged tree is already known to violate ONE clause of this property in one specific way - after an accepted corner swap between two multi-edge motifs (e.g. two triangles) the new corner edges carry the motif id of the motif the focal vertex just LEFT (so 'edges sharing a motif id still form a triangle' already fails on the unchanged tree). Your changes must break a DIFFERENT clause and your demo must not test the motif-id / shape clause.\n",
         "C17": "Note: the message passing driver has no test of its own; networks for it carry an edge attribute 'CoverLabel' of the form \"<key>-<list of vertices>-<list of edge tuples>-<id>\", e.g. \"3-[0, 1, 2]-[(0, 1), (0, 2), (1, 2)]-7\".\n"}
for l in open('/verif/properties.jsonl'):
    p = json.loads(l)
    if p['id'] == 'C19':
        continue
    pid = p['id'] + suffix
    prop = "Property %s: %s\n\nSTATEMENT: %s\n\nQUANTIFIED OVER: %s\n" % (p['id'], p['title'], p['statement'], p['quantifier']['text'])
    open('/tmp/wt/%s.prompt.txt' % pid, 'w').write(tmpl.replace('@ID@', pid).replace('@PROP@', prop).replace('@EXTRA@', extra.get(p['id'], '') + guidance))
print("ok")
