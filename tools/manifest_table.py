# id -> claim(text, level_note, technique, design_ref)
T_TLC = "TLA+ spec + TLC: exhaustive model checking of the design model, TLC-generated behaviours replayed into gcmpy, recorded gcmpy executions trace-validated by TLC"

claim("C20",
      "TLC checks the representation invariant, refinement of a plain set, draw-membership and observer clauses on ALL histories of the two-field DrawSet model (finite state space, no depth bound, 4 and 6 elements); every model behaviour to depth 4-5 and simulated depth-40 behaviours are replayed into the real class, and thousands of random histories recorded from the real class (incl. every resolution of draw()) are trace-validated against the spec step by step",
      "trusted: TLC, the JSON encoder of observations, CPython's random module structure (draws reach the generator through _randbelow); elements are hashable tuples",
      T_TLC, "DESIGN.md 4 C20")

claim("C01",
      "TLC checks count/slot/range/call-shape invariants of the stub-matching model for every handshake-consistent jds (N=3..4, 8 motif configurations incl. multi-orbit custom motifs) and every shuffle permutation; the real generators (fast, network, custom; direct and via GCMAlgorithmMain) are run through EVERY leaf of their RNG decision tree on the same 489-input family plus seeded runs to N=120, and TLC judges each recorded callback log / result against the C01 clauses",
      "trusted: TLC, the recording build callbacks (closures of the harness), the JSON encoder; inputs are handshake-consistent by construction",
      T_TLC, "DESIGN.md 4 C01")
claim("C02",
      "Same model and executions as C01; TLC judges column parallelism, pair-ness, 'entries sharing an id = the edges one callback returned', id uniqueness and per-position names on every recorded execution; the pinned len(es)==2 branch is kept as a deviation action whose MC run must violate C02_ColumnsParallel",
      "trusted: as C01; naming callbacks return distinct per-edge names so positional mix-ups are visible",
      T_TLC, "DESIGN.md 4 C02")
claim("C03",
      "Exact: the real generator is executed on every leaf of its RNG decision tree with exact rational leaf weights; TLC judges that the resulting distribution over stub arrangements is exactly uniform on the n_k!/prod jds! arrangements, jointly over topologies, for the whole MC family and all multiplicity patterns up to 6 stubs; the model side (equal fibres of Shuffle, Fisher-Yates leaves <-> permutations bijection) is model-checked",
      "trusted: CPython random module structure (draws via _randbelow), TLC; larger sequences rest on the symmetry argument (not decided by enumeration)",
      "TLA+ spec + TLC; exhaustive RNG decision-tree enumeration of the implementation judged by TLC", "DESIGN.md 4 C03")

claim("C04",
      "TLC model-checks the two conversions as maps on an abstract edge-list / network pair (every edge list with N<=3 and <=2..3 rows incl. self-loops, repeated pairs and untouched vertices; every order/orientation of the reverse conversion) and proves the node/edge/attribute/round-trip clauses on the model; the same enumerated family, thousands of random edge lists and real generator outputs with 30-60% zero-degree vertices are pushed through the real converters and every projection is judged by TLC",
      "trusted: TLC, the projection of nx.Graph to node/edge/attribute lists; for repeated pairs only membership of the stored record among the occurrences is required (the statement constrains pairs occurring once)",
      T_TLC, "DESIGN.md 4 C04")

claim("C05",
      "TLC model-checks the draw/repair state machine (all distributions of the family, sizes in {1,2,3}, N<=3, every draw and every patch target): length, divisibility, fewest-additions, never-removes, support; the real sampler is walked through its RNG tree (aligned grid for random.choices, full randrange tree) on the same 1512-state family, the exact law of the raw draws is judged as an integer identity (P(raw) = prod w/W^N), and seeded runs to N=2000 are judged incl. usability of the result by the empirical loader and the generator",
      "trusted: TLC; raw draws are observed through a wrapper on handshaking_lemma (falls back to an existential over raw draws for N<=4); random.choices uses bisect over cumulative weights (aligned grid)",
      T_TLC, "DESIGN.md 4 C05")

claim("C06",
      "The loader laws are TLA+ definitions over integer weights; TLC model-checks the construction lifecycle (create_jdd idempotence, with an accumulating deviation that must fail) and judges, for hundreds of enumerated/random inputs per loader, the table read back from the real loader after construction, after a second create_jdd and through the dispatching entry point: exact key set and every numerator over the dictated denominator; marginal support must be a product of contiguous ranges inside the bounds; sampling mode is decided exactly as (law of one sample over the whole aligned RNG tree) + (table = relative frequency of the recorded draws)",
      "trusted: TLC, float decoding within 1e-6 of a multiple of 1/D; the n->infinity limit of sampling mode is the law of large numbers (assumption)",
      T_TLC, "DESIGN.md 4 C06")
claim("C07",
      "TLC model-checks the k-loop of the split/delta loaders (mass per k, within-k ratios, delta shape, support, and the action property 'a resolved degree is never discarded', with the pinned table-reset as a deviation that must fail); the MC's whole parameter family (3888 cases, emitted by TLC) and random parameter sets up to 4 topologies are replayed into the real loaders and TLC judges every numerator f_k*w(s) over the dictated denominator SumF*SumW(k), plus the key sets after each resolve_degree call",
      "trusted: TLC, float decoding; probs=a_i/b, fp=f_k/F with small integers",
      T_TLC, "DESIGN.md 4 C07")
claim("C08",
      "TLC model-checks the column-removal loop (descending vs the pinned ascending order, which must fail) and judges the real cover loader on every size mixture incl. non-adjacent ones, 0-/1-based ids, an exhaustive small family and random covers: reported sizes, per-vertex counts, empirical table over |V|, history clauses, and the composition sample -> generate with clique motifs of the reported sizes",
      "trusted: TLC; covers use contiguous vertex ids and cover every vertex",
      T_TLC, "DESIGN.md 4 C08")

claim("C09",
      "TLC model-checks the greedy loop of get_EECC (maximal cliques, m0-subset decomposition, overlap scores with the stale-score semantics of the code, tie sets) for EVERY graph without isolated vertices on <= 5 (thorough: 6) vertices, every m0 and every tie-break: cliques within bound, edge-disjointness in every state, exact cover and empty working graph at termination, isolated maximal cliques intact, never stuck, termination under fairness; the pinned tuple de-duplication is a deviation that must break disjointness. The real code is run through every tie-break sequence (RNG tree of random.choice) on the same graphs plus G(n,p), overlapping K5/K6 unions and the repo fixture; TLC judges the returned cover and, step by step, that every picked clique is one of the spec's Candidates with the recorded tie-set size",
      "trusted: TLC; graphs built from edges; tie-breaks via random.choice of the global instance; a 60-120 s watchdog stands for non-termination",
      T_TLC, "DESIGN.md 4 C09")

claim("C10",
      "TLC model-checks the accept/claim loop of MPCC for EVERY graph on <= 5 vertices, limits 0/2/3/4 and every order that is non-increasing in size (the shuffle + stable sort): labels are whole disjoint cliques within the limit, every edge covered, greedy-maximality; dropping reverse=True is a deviation that must fail. The real MPCC is driven along chosen clique orders (Fisher-Yates plan computed for the clique list, directed oracle) on the same graphs plus G(n,p) and generator outputs, and TLC judges the parsed labels, the untouched graph and greedy-maximality on every recorded run",
      "trusted: TLC, the label parser of the encoder (size-members-id), non-negative int vertex ids",
      T_TLC, "DESIGN.md 4 C10")

claim("C11",
      "TLC model-checks the corner-swap state machine (draw, corners by motif id, suitability incl. self-loop rejection, Metropolis acceptance as nondeterminism, apply) on a committed family of small clean motif networks to depth 3 (thorough 6): edge count, per-topology degrees, no self-loop, ids stable, motif shape; the pinned id-inheritance and the missing loop check are deviations that must fail. The real rewire() is driven (a) along every first proposal of the model family (directed oracle) and (b) through seeded runs on harness-built clean networks with every swap_condition call recorded; TLC judges every intermediate graph against the input and classifies every accepted swap as the model's corner exchange (repaired or pinned-id mechanism). The recorded known finding (motif ids inherited from the wrong motif) is recognised by that classification; any other violation is reported",
      "trusted: TLC; clean networks are built by the harness; snapshots come from a wrapper on swap_condition (argument G); a rewire() call stopped by the watchdog is inconclusive",
      T_TLC, "DESIGN.md 4 C11")
claim("C12",
      "Same model and recorded executions as C11 with holed targets: TLC checks that every edge created by any accepted swap (and every edge of the output not in the input) has positive target weight, recomputes the Metropolis decision of EVERY recorded swap_condition call exactly (integer weights over 64, aligned 4096-point uniform draw, the code's own pairing and 'nothing changes' rule) and model-checks 'ratio = stationary-weight ratio'; seeded 150-vertex runs toward an assortative target must reduce the L1 distance (computed by TLC as integers) on a majority of seeds",
      "trusted: TLC; distance clause is statistical (calibrated: 60 seeds, worst drop 10.5%); chain is not reversible move-by-move (TLC counterexample), so exact detailed balance is not claimed",
      T_TLC, "DESIGN.md 4 C12")

claim("C13",
      "The extractor is a TLA+ state machine with its per-topology edge counter (the accumulating counter is a deviation that must fail); TLC checks exactness (edge-END counts over 2E_t), symmetry, sum to one and repeatability over call histories on the committed network family, and judges every matrix returned by 1-4 successive get_ejks() calls on one real extractor (and the overall-degree variant) for ~100-400 annotated networks incl. self-paired classes, two differently named 2-clique topologies and annotations that differ from actual degrees",
      "trusted: TLC, float decoding over the dictated denominator 2E_t",
      T_TLC, "DESIGN.md 4 C13")
claim("C14",
      "The inversion routine is a TLA+ state machine over exact fractions (invert each topology, rescale on a common key, merge, renormalise): TLC proves on a family of ~1300 distributions x name lists that it returns P restricted to non-zero joint degrees and is always defined (the hard-coded reference topology is a deviation that must fail); TLC then judges the real static functions (excess, mean, inversion with arbitrary topology names, row sums of arbitrary integer matrices, and row sums of network-derived matrices = excess of the network's empirical jdd) on thousands of enumerated/random inputs",
      "trusted: TLC, float decoding; inversion premise: some joint degree positive in every topology",
      T_TLC, "DESIGN.md 4 C14")

claim("C15",
      "The semantics is the percolation PROCESS (every edge decided independently); TLC enumerates all 2^|E| configurations of a motif, builds the integer coefficient table of the exact expectation and model-checks total probability and the evaluator-cache machine (shared motif names are a deviation that must fail). The real automated_equation is called with formal indeterminates (phi = p, distinct u_v) so that it returns its polynomial; TLC compares every coefficient for every connected graph on <= 5 (thorough 6-7) vertices x every focal vertex, relabelled cliques/cycles, and along interleaved query histories on ONE evaluator with numeric calls in between",
      "trusted: TLC, the 80-line exact polynomial class (integral floats accepted, anything else raises), motif names distinct per motif",
      "TLA+ spec + TLC; exact polynomial injection into the implementation, coefficients judged by TLC", "DESIGN.md 4 C15")
claim("C16",
      "clique_equation (distinct neighbour indeterminates) and chordless_cycle_equation are injected with indeterminates and compared coefficient by coefficient with the TLC-enumerated expectation (tau <= 5/6, cycles <= 7/9); Q and QQ equal TLC's brute-force count of connected labelled graphs for all n <= 5/6 and all k; Q modulo five primes equals a TLC-built modular table (component-of-vertex-1 recursion, validated against brute force for n <= 5) for all n <= 9/12 and all k; number_of_connected_graphs equals TLC's brute force for every graph on <= 4 vertices, every subset, every k",
      "trusted: TLC; values of Q for n > 6 are distinguished only up to the product of five 16-bit primes (~2^77)",
      "TLA+ spec + TLC; exact polynomial injection and integer/modular equality judged by TLC", "DESIGN.md 4 C16")
claim("C17",
      "TLC model-checks the message update in the exponent domain at phi = 1 under EVERY update order (chaotic iteration): on tree-like covers every quiescent table is the unique fixed point and is reached; on cyclic covers the fixed point is not unique (deviation cfg). The real MessagePassing is run with every read/write of its message table recorded; TLC validates every update at every phi (exactly the other members' other motifs, each once; right key written; all pairs initialised to 1/2 and updated; final average over each vertex's motifs), recomputes every written value exactly at phi in {0, 1} (exponents) and, at phi = 1/2, every update whose inputs are still at the start value against the exact motif expectation (dyadic rational from the C15 coefficient table); plus bit-exact history independence, bounds/zero/monotonicity on phi grids and 300-vs-301 sweep agreement",
      "trusted: TLC; equality with the fixed point at interior phi is compositional (validated bookkeeping + exact motif expectation (C15) + convergence to 1e-5), not recomputed; table observed through the _H_tau attribute",
      T_TLC, "DESIGN.md 4 C17")
claim("C18",
      "bond_percolate is walked through the whole tree of its per-edge uniform draws on the aligned grid (phi = a/b) for every graph on <= 4 vertices and stars with <= 6 leaves; TLC judges the exact distribution of the returned value against independent retention (count of leaves with result r = sum over keep-sets with largest component r of a^|S|(b-a)^(|E|-|S|)), multiples of 1/N, range, phi = 0 / 1, and that the input graph incl. attributes is untouched; seeded runs to 30 vertices for the range clauses",
      "trusted: TLC, CPython random.random() reached through the oracle",
      "TLA+ spec + TLC; exhaustive RNG decision-tree enumeration of the implementation judged by TLC", "DESIGN.md 4 C18")

# crash points (DESIGN.md 9, 11 wave 7): which claims also judge a complete call made after an abandoned one
_CRASH = {
    "C01": "the earlier call on the same generator was aborted by its k-th build callback raising (StubMatching!Abort; leak deviations refuted)",
    "C02": "the earlier call on the same generator was aborted by its k-th build callback raising (StubMatching!Abort; leak deviations refuted)",
    "C03": "the exact law is also judged after an aborted call and after the caller edited its list in place",
    "C04": "a conversion of the same edge-list object was abandoned at an arbitrary source line first",
    "C06": "a construction with the same callables was aborted (callable raising at its k-th call, or abandoned at an arbitrary source line); rejected-input lifecycle TryCandidate/Restore model-checked",
    "C07": "constructions over fresh degree ranges abandoned at an arbitrary source line first (cold memo); rejected-input lifecycle model-checked",
    "C08": "a malformed cover through the setter is rejected by create_jdd and the previous cover put back; construction abandoned at an arbitrary source line first",
    "C09": "a run on the same object was abandoned at an arbitrary source line, the edges added again",
    "C10": "the earlier cover of the same graph object was abandoned at an arbitrary line, also inside networkx's clique enumeration",
    "C11": "a rewiring of the same network on the same object was abandoned at an arbitrary source line first",
    "C12": "a rewiring of the same network on the same object was abandoned at an arbitrary source line first",
    "C13": "an extraction on the same extractor was abandoned at an arbitrary source line first",
    "C15": "the same evaluation (same evaluator, same graph object) was abandoned at an arbitrary source line first",
    "C16": "a count was abandoned at an arbitrary source line with an empty memo, then every count of that size judged again",
    "C17": "queries on the shared object were abandoned at an arbitrary source line before the judged query",
    "C18": "a percolation of the same graph object was abandoned at an arbitrary line (also inside networkx) first; the input must be as it was",
    "C20": "calls that raise (removal of an absent element, insertion of an unhashable tuple) are model actions that must leave the structure as it was; draw support is enumerated right after them",
}
for _pid, _t in _CRASH.items():
    CHECKS[_pid]["text"] += "; CRASH POINTS (CrashPoints.tla: Abort after every micro-step, a later complete call equals a fresh object's; reset-at-end and register-before-fill deviations refuted by TLC): " + _t

_pending = "no check built yet in this round; planned (DESIGN.md 4)"
NOT_APPLICABLE["C19"] = "numerical accuracy of four stateless real-valued functions (exp, zeta, polylog): no state, no transitions, TLC has neither reals nor transcendental functions (DESIGN.md 5)"
