# id -> claim(text, level_note, technique, design_ref)
T_TLC = "TLA+ spec + TLC: exhaustive model checking of the design model, TLC-generated behaviours replayed into gcmpy, recorded gcmpy executions trace-validated by TLC"

claim("C20",
      "TLC checks the representation invariant, refinement of a plain set, draw-membership and observer clauses on ALL histories of the two-field DrawSet model (finite state space, no depth bound, 4 and 6 elements); every model behaviour to depth 4-5 and simulated depth-40 behaviours are replayed into the real class, and thousands of random histories recorded from the real class (incl. every resolution of draw()) are trace-validated against the spec step by step",
      "trusted: TLC, the JSON encoder of observations, CPython's random module structure (draws reach the generator through _randbelow); elements are hashable tuples",
      T_TLC, "DESIGN.md 4 C20")

_pending = "no check built yet in this round; planned (DESIGN.md 4)"
for p in ["C01","C02","C03","C04","C05","C06","C07","C08","C09","C10","C11","C12","C13","C14","C15","C16","C17","C18"]:
    NOT_APPLICABLE[p] = _pending
NOT_APPLICABLE["C19"] = "numerical accuracy of four stateless real-valued functions (exp, zeta, polylog): no state, no transitions, TLC has neither reals nor transcendental functions (DESIGN.md 5)"
