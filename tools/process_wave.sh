#!/bin/sh
# usage: process_wave.sh <suffix> <prop> [<prop> ...]   e.g. process_wave.sh c C09 C11
S="$1"; shift
mkdir -p /tmp/confirm_out
for p in "$@"; do for k in 1 2; do
  d=/tmp/wt/${p}${S}/_out/m$k
  [ -f $d/patch.diff ] || { echo "$p$S m$k: no patch"; continue; }
  (/verif/tools/confirm_mutant.sh $d /tmp/confirm_out/${p}${S}-m$k.txt &)
  echo "$p$S m$k: $(timeout 1500 /verif/tools/try_mutant.sh $d/patch.diff $p | cut -c1-170)"
done; done
