#!/bin/sh
# re-run every kept seeded change against the quick check of the property it targets (4 at a time)
cd "$(dirname "$0")/.."
ls -d seeded/C*/ | sed 's|seeded/||; s|/||' | xargs -P 4 -I{} sh -c 'p=$(echo {} | cut -c1-3); r=$(tools/try_mutant.sh $(pwd)/seeded/{}/patch.diff $p 2>&1 | tail -1 | cut -c1-150); echo "{} $r"'
