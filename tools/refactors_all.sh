#!/bin/sh
# re-run every archived behaviour-preserving refactor against the quick checks it can influence (3 at a time);
# every line must end in rc=0 (OK, possibly with NOT-DECIDED notes) - an rc=1 or rc=2 here is a false alarm of the machinery
cd "$(dirname "$0")/.."
ids_for() {
  case "$1" in
    R1_*) echo "C01 C03";; R2_*) echo C09;; R3_*) echo C10;; R4_*) echo C20;; R5_*|R10_*) echo C17;; R7_*) echo C13;; R8_*) echo C05;; R9_*) echo C18;;
    C01-*) echo "C01 C02";; C08-*) echo "C08 C05";; C11-*) echo "C11 C12";; C13-*) echo "C13 C14";;
    C*) echo "$1" | cut -c1-3;;
  esac
}
for f in seeded/refactors/*.diff seeded/refactors/independent/*.diff seeded/refactors/independent_b/*.diff; do
  b=$(basename "$f"); echo "$f $(ids_for "$b")"
done | xargs -P 3 -L 1 sh -c 'f=$0; shift 0; ids="$@"; r=$(tools/try_mutant.sh "$(pwd)/$f" $ids 2>&1 | cut -c1-70 | tr "\n" "|"); echo "$f: $r"'
