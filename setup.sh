#!/bin/sh
# setup_cmd: verify the offline toolchain and parse every TLA+ module.
set -e
cd "$(dirname "$0")"
java -version 2>&1 | head -1
test -f /opt/veriftools/tla/tla2tools.jar
/venv/bin/python -c "import networkx, numpy, sys; print('python', sys.version.split()[0], 'networkx', networkx.__version__)"
cd spec
fail=0
for f in *.tla; do
  if ! java -cp /opt/veriftools/tla/tla2tools.jar:/opt/veriftools/tla/CommunityModules-deps.jar tla2sany.SANY "$f" >/tmp/sany.$$ 2>&1; then
    echo "SANY failed on $f"; cat /tmp/sany.$$; fail=1
  fi
  if grep -q "^Semantic errors\|Parse Error\|Fatal errors" /tmp/sany.$$; then echo "SANY errors in $f"; cat /tmp/sany.$$; fail=1; fi
done
rm -f /tmp/sany.$$
mkdir -p ../evidence ../replay
exit $fail
