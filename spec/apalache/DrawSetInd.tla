----------------------------- MODULE DrawSetInd -----------------------------
(* Unbounded-history argument for C20's representation invariant, for Apalache:
   IndInv is inductive for the add / remove / absent-remove actions of DrawSet.tla
   (same AddF / RemoveF, typed).  Checked with
     apalache-mc check --init=IndInit --inv=IndInv --length=1 DrawSetInd.tla      (IndInv /\ Next => IndInv')
     apalache-mc check --init=Init    --inv=IndInv --length=0 DrawSetInd.tla      (Init => IndInv)
   Elements are integers 1..4 here; sequences are bounded by the universe because IndInv forbids duplicates.   *)
EXTENDS Integers, Sequences, FiniteSets, Apalache

U == 1..4

VARIABLES
    \* @type: Seq(Int);
    edges,
    \* @type: Int -> Int;
    hmap,
    \* @type: Set(Int);
    model

\* @type: (Seq(Int)) => Set(Int);
Range(s) == {s[i] : i \in DOMAIN s}

IndInv ==
    /\ Len(edges) <= 4
    /\ \A i \in DOMAIN edges : edges[i] \in U
    /\ \A i, j \in DOMAIN edges : edges[i] = edges[j] => i = j
    /\ DOMAIN hmap = Range(edges)
    /\ \A e \in DOMAIN hmap : hmap[e] \in DOMAIN edges /\ edges[hmap[e]] = e
    /\ model = Range(edges)

Init == edges = <<>> /\ hmap = [x \in {} |-> 0] /\ model = {}

IndInit ==
    /\ edges = Gen(4)
    /\ hmap = Gen(4)
    /\ model = Gen(4)
    /\ IndInv

Add(e) ==
    IF e \in DOMAIN hmap
    THEN UNCHANGED <<edges, hmap, model>>
    ELSE /\ edges' = Append(edges, e)
         /\ hmap' = [x \in DOMAIN hmap \cup {e} |-> IF x = e THEN Len(edges) + 1 ELSE hmap[x]]
         /\ model' = model \cup {e}

Remove(e) ==
    /\ e \in DOMAIN hmap
    /\ LET pos == hmap[e]
           n == Len(edges)
           lastItem == edges[n]
           body == SubSeq(edges, 1, n - 1)
       IN /\ edges' = IF pos # n THEN [body EXCEPT ![pos] = lastItem] ELSE body
          /\ hmap' = [x \in DOMAIN hmap \ {e} |-> IF x = lastItem /\ pos # n THEN pos ELSE hmap[x]]
    /\ model' = model \ {e}

RemoveAbsent(e) == e \notin DOMAIN hmap /\ UNCHANGED <<edges, hmap, model>>

Next == \E e \in U : Add(e) \/ Remove(e) \/ RemoveAbsent(e)
=============================================================================
