SPECIFICATION MSpec
CONSTANT MixNets <- FamilyNets
CONSTANT Dists <- AllDists
CONSTANT NameLists <- AllNames
CONSTANT AccumulateCounter = FALSE
CONSTANT HardCodedReference = TRUE
CONSTANT Nets = {}
CONSTANT PinnedIds = FALSE
CONSTANT NoLoopCheck = FALSE
CONSTANT MaxSwaps = 0
INVARIANT C13_Exact
INVARIANT C13_Symmetric
INVARIANT C13_SumsToOne
INVARIANT C14_ExcessSumsToOne
INVARIANT C14_InverseIsIdentity
INVARIANT C14_InversionDefined
PROPERTY C13_Repeatable
CHECK_DEADLOCK FALSE
