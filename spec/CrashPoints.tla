---------------------------- MODULE CrashPoints ----------------------------
(* The general shape of a crash point in gcmpy, shared by every property that is stated for "any history":
   a public call on an object is a sequence of micro-steps; some of what it writes is call-local, some lives on
   the object (instance attributes, module-level memo tables, attributes of the caller's graph) and survives the
   call.  The call may be abandoned after any micro-step (a user callback raises, a malformed input is met
   half-way, Ctrl-C / a watchdog fires): the exception reaches the caller, who keeps the object and later makes a
   complete call.  Claim checked here and - through harness/crash.py, which abandons real calls of the library at
   the k-th executed source line - on the code: a COMPLETE call returns what it returns on a fresh object,
   whatever was abandoned before it.

   Variant selects how the persistent fields are managed:
     "reset_at_start"        what the library does everywhere (fields rebuilt when a call begins, memo entries
                             registered when their value is complete)                          - property holds
     "reset_at_end"          working field cleared just before return instead                   - TLC must refute
     "register_before_fill"  memo entry registered (as the very list being filled) before it is complete
                                                                                                - TLC must refute
   The two deviations are the two mechanisms behind every seeded change of the seventh wave that needed a fault. *)
EXTENDS Naturals, Sequences
CONSTANTS Steps, MaxCalls, Variant
VARIABLES pc,           \* 0: idle; 1..Steps: about to do micro-step pc; Steps+1: about to return
          scratch,      \* persistent working field of the object
          cache,        \* persistent memo value
          registered,   \* the memo entry exists
          result,       \* what the last complete call returned (<<>> before any)
          ncalls, aborts
vars == <<pc, scratch, cache, registered, result, ncalls, aborts>>

Fresh == [i \in 1..Steps |-> i]
Init == pc = 0 /\ scratch = <<>> /\ cache = <<>> /\ registered = FALSE /\ result = <<>> /\ ncalls = 0 /\ aborts = 0

Begin == /\ pc = 0 /\ ncalls < MaxCalls /\ ncalls' = ncalls + 1
         /\ IF registered
            THEN /\ result' = cache /\ UNCHANGED <<pc, scratch>>                 \* memo hit: returns at once
            ELSE /\ pc' = 1 /\ UNCHANGED result
                 /\ scratch' = IF Variant = "reset_at_end" THEN scratch ELSE <<>>
         /\ UNCHANGED <<cache, registered, aborts>>
Step == /\ pc \in 1..Steps
        /\ scratch' = Append(scratch, pc)
        /\ registered' = (registered \/ (Variant = "register_before_fill" /\ pc = 1))
        /\ cache' = IF registered' THEN scratch' ELSE cache                       \* the registered entry IS the list being filled
        /\ pc' = pc + 1
        /\ UNCHANGED <<result, ncalls, aborts>>
Return == /\ pc = Steps + 1
          /\ result' = scratch /\ cache' = scratch /\ registered' = TRUE
          /\ scratch' = IF Variant = "reset_at_end" THEN <<>> ELSE scratch
          /\ pc' = 0
          /\ UNCHANGED <<ncalls, aborts>>
Abort == /\ pc \in 1..(Steps + 1) /\ pc' = 0 /\ aborts' = aborts + 1
         /\ UNCHANGED <<scratch, cache, registered, result, ncalls>>
Next == Begin \/ Step \/ Return \/ Abort
Spec == Init /\ [][Next]_vars

CP_CompleteCallEqualsFresh == result \in {<<>>, Fresh}
CP_AbortChangesNoResult == [][pc' = 0 /\ aborts' > aborts => result' = result]_vars
=============================================================================
