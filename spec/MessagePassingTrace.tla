------------------------ MODULE MessagePassingTrace ------------------------
(* JUDGE for C17.  run: every read and write of the message table during one theoretical(phi) call, grouped
   into updates (reads since the previous write + the write), for phi = 0, phi = 1 (values are exact powers of two and
   are logged as exponents; 9999 = the float 0.0) and interior phi (structure only).  history / curve / converge:
   returned values as bit patterns or as integers scaled by 1e9.                                            *)
EXTENDS MessagePassing, Json, IOUtils, SequencesExt, Integers
Traces == JsonDeserialize(IOEnv.TRACE_FILE)
VARIABLE tid
PO == INSTANCE PercolationOps
SetOf(s) == {s[i] : i \in DOMAIN s}
CoverOf(t) == [m \in {t.cover[i].id : i \in DOMAIN t.cover} |-> SetOf(t.cover[CHOOSE i \in DOMAIN t.cover : t.cover[i].id = m].V)]
AsPairs(s) == {<<s[i][1], s[i][2]>> : i \in DOMAIN s}
SumSeq(s) == FoldSeq(LAMBDA a, acc : a + acc, 0, s)
INF == 9999
RECURSIVE Pow2(_)
Pow2(n) == IF n = 0 THEN 1 ELSE 2 * Pow2(n - 1)

FailedRun(t) ==
    LET c == CoverOf(t)
        pairs == PairsOf(c)
        U == t.updates
    IN
    IF t.raised # "" THEN {"raised"} ELSE
    (IF ~t.events_known THEN {} ELSE
     {cl \in {"message_not_initialised_to_one_half", "pair_without_a_message", "update_reads_wrong_messages", "update_multiplies_a_message_twice",
             "update_uses_wrong_member_set", "update_writes_another_key", "pair_never_updated", "final_average_reads_wrong_messages",
             "update_value_not_product_of_inputs_at_phi_one", "message_not_one_at_phi_zero",
             "first_update_is_not_the_exact_motif_expectation_at_phi_one_half"} :
        CASE cl = "message_not_initialised_to_one_half" -> ~t.init_all_half
          [] cl = "pair_without_a_message" -> AsPairs(t.init_keys) # pairs
          [] cl = "update_reads_wrong_messages" -> \E i \in DOMAIN U : U[i].m \in DOMAIN c /\ AsPairs(U[i].reads) # Inputs(c, U[i].f, U[i].m)
          [] cl = "update_multiplies_a_message_twice" -> \E i \in DOMAIN U : Len(U[i].reads) # Cardinality(AsPairs(U[i].reads))
          [] cl = "update_uses_wrong_member_set" -> \E i \in DOMAIN U : U[i].m \notin DOMAIN c \/ SetOf(U[i].prods_keys) # c[U[i].m] \ {U[i].f}
          [] cl = "update_writes_another_key" -> \E i \in DOMAIN U : U[i].wrote # <<U[i].f, U[i].m>> \/ U[i].m \notin DOMAIN c \/ <<U[i].f, U[i].m>> \notin pairs
          [] cl = "pair_never_updated" -> t.iterations > 0 /\ {<<U[i].f, U[i].m>> : i \in DOMAIN U} # pairs
          [] cl = "final_average_reads_wrong_messages" -> t.final_reads_known /\ (AsPairs(t.final_reads) # pairs \/ Len(t.final_reads) # Cardinality(pairs))
          [] cl = "update_value_not_product_of_inputs_at_phi_one" -> t.phi_kind = "one" /\ \E i \in DOMAIN U :
                   LET rx == U[i].rx IN
                   IF \E k \in DOMAIN rx : rx[k] < 0 THEN TRUE                          \* a message that is not a power of two at phi = 1
                   ELSE IF \E k \in DOMAIN rx : rx[k] = INF THEN U[i].wx # INF
                   ELSE IF SumSeq(rx) > 1070 THEN U[i].wx # INF /\ U[i].wx # SumSeq(rx)     \* underflow region
                   ELSE U[i].wx # SumSeq(rx)
          [] cl = "message_not_one_at_phi_zero" -> t.phi_kind = "zero" /\ \E i \in DOMAIN U : U[i].wx # 0
            \* phi = 1/2, all inputs still at the start value 1/2: the written message is the dyadic rational
            \*   sum_{a, C} Coef(a, C) * 2^-a * prod_{j in C \ f} 2^-k_j      (k_j = number of other motifs of j), over 2^K
          [] cl = "first_update_is_not_the_exact_motif_expectation_at_phi_one_half" -> \E i \in DOMAIN U : U[i].spot /\ U[i].m \in DOMAIN c /\ U[i].f \in c[U[i].m] /\
                   LET u == U[i]
                       mo == t.cover[CHOOSE k \in DOMAIN t.cover : t.cover[k].id = u.m]
                       E == {{mo.E[k][1], mo.E[k][2]} : k \in DOMAIN mo.E}
                       kj(j) == Cardinality({k \in DOMAIN u.reads : u.reads[k][1] = j})
                       ct == PO!CoefTable(E, u.f)
                       expo(r) == r[1] + PO!ISumSet(r[2] \ {u.f}, LAMBDA j : kj(j))
                   IN ~u.wok \/ \E r1 \in ct : expo(r1) > u.K
                      \/ u.wn # PO!ISumSet(ct, LAMBDA r2 : r2[3] * Pow2(u.K - expo(r2)))})
    \cup (IF t.phi_kind = "zero" /\ ~t.answer_is_zero THEN {"answer_not_zero_at_phi_zero"} ELSE {})
    \cup (IF t.phi_kind = "one" /\ t.answer_decided /\ t.events_known THEN
             LET X(v) == SumSeq([i \in DOMAIN t.table |-> IF t.table[i].v = v THEN t.table[i].e ELSE 0])
                 D == t.N * Pow2(t.xmax)
                 fail == SumSeq([i \in DOMAIN t.nodes |-> Pow2(t.xmax - X(t.nodes[i]))])
             IN IF ~t.answer.ok \/ t.answer.D # D \/ t.answer.n # D - fail THEN {"answer_is_not_one_minus_vertex_average_of_products"} ELSE {}
          ELSE {})

Abs(a, b) == IF a > b THEN a - b ELSE b - a
FailedHistory(t) == IF t.raised # "" THEN {"raised"} ELSE IF t.shared # t.fresh THEN {"answers_depend_on_query_history"} ELSE {}
TOL == 10          \* 1e-8 in units of 1e-9 (a probe returned -2.2e-16 at phi = 0.2)
FailedCurve(t) ==
    IF t.raised # "" THEN {"raised"} ELSE
    {cl \in {"value_outside_0_1", "not_zero_at_phi_zero", "decreasing_in_phi"} :
       CASE cl = "value_outside_0_1" -> \E i \in DOMAIN t.vals : t.vals[i] < -TOL \/ t.vals[i] > 1000000000 + TOL
         [] cl = "not_zero_at_phi_zero" -> t.first_is_phi_zero /\ Abs(t.vals[1], 0) > TOL
         [] cl = "decreasing_in_phi" -> \E i \in DOMAIN t.vals : i > 1 /\ t.vals[i] < t.vals[i - 1] - TOL}
FailedConverge(t) == IF t.raised # "" THEN {"raised"}
                     ELSE IF Abs(t.a, t.b) > 10000 THEN {"more_iterations_change_the_answer_fixed_point_not_reached"} ELSE {}

Failed(t) == CASE t.kind = "run" -> FailedRun(t)
               [] t.kind = "history" -> FailedHistory(t)
               [] t.kind = "curve" -> FailedCurve(t)
               [] t.kind = "converge" -> FailedConverge(t)
               [] OTHER -> {"unknown_kind"}
TInit == tid = 0 /\ cv = <<>> /\ x = <<>> /\ updates = 0
TNext == /\ tid < Len(Traces) /\ tid' = tid + 1
         /\ LET f == Failed(Traces[tid']) IN
            PrintT("VERDICT " \o ToJson([tid |-> tid', v |-> IF f = {} THEN "ok" ELSE "violation:" \o (CHOOSE c \in f : TRUE), failed |-> f]))
         /\ UNCHANGED vars
TSpec == TInit /\ [][TNext]_<<vars, tid>>
=============================================================================
