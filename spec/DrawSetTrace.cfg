SPECIFICATION TSpec
CONSTANT U = {1,2,3,4,5,6,7,8,9,10,11,12}
CHECK_DEADLOCK FALSE
