------------------------------ MODULE Rewiring ------------------------------
(* gcmpy/tools/markov_chain_monte_carlo_rewiring.py (C11, C12): corner swaps between
   two motifs of a clean motif network under a Metropolis rule.

   A network:  V, JD[v] (joint degree tuple), Tops (sequence of topology names; a
   topology's index in it is its column in JD), G : edge (2-set) -> [top, mid].
   Target[t] : <<a, b>> (pair of joint EXCESS degree tuples) -> integer weight.

   One Swap step = the critical section of rewire(): draw e0 and e1 from the
   DrawSet mirror (elements are sorted tuples, so the focal vertex is the smaller
   end point), take the two corners, suitability, Metropolis, apply.
   PinnedIds = TRUE selects the mechanism of the pinned tree: the new edge (u0, v1)
   inherits topology and motif id from the old edge at u0 (recorded as a known
   finding, see known_findings.txt).                                            *)
EXTENDS Naturals, Sequences, FiniteSets, TLC

CONSTANTS Nets, PinnedIds, NoLoopCheck, MaxSwaps

VARIABLES net, G, swaps
vars == <<net, G, swaps>>

ProdSet(S, f(_)) == LET RECURSIVE go(_)
                        go(R) == IF R = {} THEN 1 ELSE LET x == CHOOSE y \in R : TRUE IN f(x) * go(R \ {x})
                    IN go(S)
Min2(e) == CHOOSE x \in e : \A y \in e : x <= y
Other(e, u) == CHOOSE x \in e : x # u \/ Cardinality(e) = 1
Nbrs(g, u) == {v \in UNION DOMAIN g : {u, v} \in DOMAIN g}
TopIndex(nt, t) == CHOOSE i \in DOMAIN nt.tops : nt.tops[i] = t
Ex(nt, v, i) == [nt.jd[v] EXCEPT ![i] = @ - 1]                   \* joint excess degree of v in topology column i
Key(nt, x, y, t) == <<Ex(nt, x, TopIndex(nt, t)), Ex(nt, y, TopIndex(nt, t))>>
TW(nt, t, k) == IF k \in DOMAIN nt.target[t] THEN nt.target[t][k] ELSE 0     \* missing key = weight 0 (KeyError branch)

(* corner = neighbours of the focal vertex through edges carrying the drawn edge's motif id *)
Corner(g, u, e) == {v \in Nbrs(g, u) : g[{u, v}].mid = g[e].mid}
TopCount(g, u, C, t) == Cardinality({v \in C : g[{u, v}].top = t})
AllTops(g) == {g[e].top : e \in DOMAIN g}

Suitable(nt, g, u0, v0, U1, V1) ==
    /\ Cardinality(U1) = Cardinality(V1)
    /\ \A t \in AllTops(g) : TopCount(g, u0, U1, t) = TopCount(g, v0, V1, t)
    /\ \A u1 \in U1 : \A v1 \in V1 : g[{u0, u1}].mid # g[{v0, v1}].mid
    /\ \A u1 \in U1 : \A v1 \in V1 : g[{u0, u1}].top = g[{v0, v1}].top =>
            /\ (NoLoopCheck \/ (u0 # v1 /\ v0 # u1))
            /\ {u0, v1} \notin DOMAIN g /\ {v0, u1} \notin DOMAIN g

Numer(nt, g, u0, v0, U1, V1) ==
    ProdSet(V1, LAMBDA v1 : TW(nt, g[{v0, v1}].top, Key(nt, u0, v1, g[{v0, v1}].top)))
    * ProdSet(U1, LAMBDA u1 : TW(nt, g[{u0, u1}].top, Key(nt, v0, u1, g[{u0, u1}].top)))
Denom(nt, g, u0, v0, U1, V1) ==
    ProdSet(U1, LAMBDA u1 : TW(nt, g[{u0, u1}].top, Key(nt, u0, u1, g[{u0, u1}].top)))
    * ProdSet(V1, LAMBDA v1 : TW(nt, g[{v0, v1}].top, Key(nt, v0, v1, g[{v0, v1}].top)))

(* u0 takes v0's place in the motif of e1 and vice versa *)
ApplyF(g, u0, v0, U1, V1, pinned) ==
    LET old == {{u0, u1} : u1 \in U1} \cup {{v0, v1} : v1 \in V1}
        newU == {{u0, v1} : v1 \in V1}
        newV == {{v0, u1} : u1 \in U1}
        anyU == g[{u0, CHOOSE u1 \in U1 : TRUE}]
        anyV == g[{v0, CHOOSE v1 \in V1 : TRUE}]
        attr(e) == IF e \in newU
                   THEN LET v1 == CHOOSE x \in V1 : e = {u0, x} IN
                        IF pinned THEN [top |-> g[{v0, v1}].top, mid |-> anyU.mid] ELSE g[{v0, v1}]
                   ELSE LET u1 == CHOOSE x \in U1 : e = {v0, x} IN
                        IF pinned THEN [top |-> g[{u0, u1}].top, mid |-> anyV.mid] ELSE g[{u0, u1}]
    IN [e \in (DOMAIN g \ old) \cup newU \cup newV |-> IF e \in DOMAIN g \ old THEN g[e] ELSE attr(e)]

Init == net \in Nets /\ G = net.g /\ swaps = 0

(* acceptance is a random comparison: any proposal with positive numerator may be accepted *)
Swap ==
    \E e0 \in DOMAIN G : \E e1 \in DOMAIN G :
        LET u0 == Min2(e0)
            v0 == Min2(e1)
            U1 == Corner(G, u0, e0)
            V1 == Corner(G, v0, e1)
        IN /\ G[e0].top = G[e1].top
           /\ Suitable(net, G, u0, v0, U1, V1)
           /\ Numer(net, G, u0, v0, U1, V1) > 0
           /\ G' = ApplyF(G, u0, v0, U1, V1, PinnedIds)
           /\ G' # G
           /\ swaps' = swaps + 1 /\ UNCHANGED net
(* history: the same rewiring object is handed another network (network setter) and used again;
   nothing of the previous network may leak into the new run *)
Rebind == /\ net' \in Nets \ {net} /\ G' = net'.g /\ swaps' = 0
Next == Swap \/ Rebind
Spec == Init /\ [][Next]_vars
DepthBound == swaps <= MaxSwaps          \* CONSTRAINT; with VIEW GraphView each reachable graph is explored once
GraphView == <<net, G>>

(* -------------------------------- properties -------------------------------- *)
Deg(g, v, t) == Cardinality({e \in DOMAIN g : v \in e /\ g[e].top = t})
MotifIds(g) == {g[e].mid : e \in DOMAIN g}
MotifEdges(g, m) == {e \in DOMAIN g : g[e].mid = m}
MotifVerts(g, m) == UNION MotifEdges(g, m)
(* shape of a motif = topologies, number of edges, number of distinct vertices, multiset of within-motif degrees *)
ShapeOfEdges(g, es) ==
    LET vs == UNION es
        indeg(v) == Cardinality({e \in es : v \in e})
    IN <<{g[e].top : e \in es}, Cardinality(es), Cardinality(vs),
         [d \in 0..Cardinality(vs) |-> Cardinality({v \in vs : indeg(v) = d})]>>
ShapeOf(g, m) == ShapeOfEdges(g, MotifEdges(g, m))
SameShape(g, h, m) == ShapeOf(g, m) = ShapeOf(h, m)

C11_EdgeCount == Cardinality(DOMAIN G) = Cardinality(DOMAIN net.g)
C11_DegPerTopology == \A v \in net.V : \A t \in AllTops(net.g) : Deg(G, v, t) = Deg(net.g, v, t)
C11_NoSelfLoop == \A e \in DOMAIN G : Cardinality(e) = 2
C11_VerticesStay == UNION DOMAIN G \subseteq net.V
C11_IdsStable == MotifIds(G) = MotifIds(net.g)
C11_MotifShape == \A m \in MotifIds(net.g) : SameShape(G, net.g, m)

Allowed(nt, g, e) == LET x == Min2(e) y == Other(e, x) IN
                     TW(nt, g[e].top, Key(nt, x, y, g[e].top)) > 0 \/ TW(nt, g[e].top, Key(nt, y, x, g[e].top)) > 0
C12_OnlyAllowed == [][net' = net => \A e \in DOMAIN G' \ DOMAIN G : Allowed(net, G', e)]_vars
Wt(nt, g) == ProdSet(DOMAIN g, LAMBDA e : LET x == Min2(e) y == Other(e, x) IN TW(nt, g[e].top, Key(nt, x, y, g[e].top)))
(* Metropolis ratio of every step = ratio of stationary weights (symmetric targets): top * Wt(G) = bottom * Wt(G') *)
C12_RatioIsWeightRatio ==
    [][net' = net => \A e0 \in DOMAIN G : \A e1 \in DOMAIN G :
          LET u0 == Min2(e0) v0 == Min2(e1) U1 == Corner(G, u0, e0) V1 == Corner(G, v0, e1) IN
          (G[e0].top = G[e1].top /\ Suitable(net, G, u0, v0, U1, V1) /\ G' = ApplyF(G, u0, v0, U1, V1, PinnedIds)) =>
              Numer(net, G, u0, v0, U1, V1) * Wt(net, G) = Denom(net, G, u0, v0, U1, V1) * Wt(net, G')]_vars
(* every accepted swap can be undone by a swap (needed for detailed balance) *)
C12_Reversible ==
    [][net' = net => \E e0 \in DOMAIN G' : \E e1 \in DOMAIN G' :
          LET u0 == Min2(e0) v0 == Min2(e1) U1 == Corner(G', u0, e0) V1 == Corner(G', v0, e1) IN
          G'[e0].top = G'[e1].top /\ Suitable(net, G', u0, v0, U1, V1) /\ ApplyF(G', u0, v0, U1, V1, PinnedIds) = G]_vars
=============================================================================
