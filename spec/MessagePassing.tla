--------------------------- MODULE MessagePassing ---------------------------
(* gcmpy/message_passing/message_passing.py (C17): messages H[v, m] for every vertex v and
   motif m containing it; an update recomputes H[f, m] from the other members j of m, each
   contributing the product of its messages from its OTHER motifs (each motif once).

   What can be computed exactly in TLA+ is the exponent domain at phi = 1: with start value
   1/2 every message is 2^-x and an update is
        x[f, m] := sum_{j in m \ {f}} sum_{m' in MotifsOf(j) \ {m}} x[j, m']        (saturating at Cap)
   The model explores EVERY order of updates (chaotic iteration) from the uniform start and
   checks that on tree-like covers every quiescent table is the unique fixed point (all
   exponents 0: a finite tree has no giant component), so any sweep order / Jacobi /
   Gauss-Seidel implementation must return it.  On covers whose motifs form a cycle the fixed
   point at phi = 1 is NOT unique (TLC exhibits two different quiescent tables: the deviation
   cfg), which is why the judge never demands a particular table there.
   The bookkeeping operators (Inputs, AverageInputs) are what the JUDGE uses at every phi.      *)
EXTENDS Naturals, Sequences, FiniteSets, TLC

CONSTANTS Covers, Cap

VARIABLES cv, x, updates
vars == <<cv, x, updates>>

(* a cover c : motif id -> set of member vertices *)
VertsOfCover(c) == UNION {c[m] : m \in DOMAIN c}
MotifsOf(c, v) == {m \in DOMAIN c : v \in c[m]}
PairsOf(c) == {p \in VertsOfCover(c) \X DOMAIN c : p[1] \in c[p[2]]}
(* the messages an update of (f, m) must read: for each other member j of m, each of j's OTHER motifs exactly once *)
Inputs(c, f, m) == {p \in (c[m] \ {f}) \X DOMAIN c : p[1] \in c[p[2]] /\ p[2] # m}
AverageInputs(c, v) == {<<v, m>> : m \in MotifsOf(c, v)}

SumOver(S, f(_)) == LET RECURSIVE go(_)
                        go(R) == IF R = {} THEN 0 ELSE LET p == CHOOSE y \in R : TRUE IN f(p) + go(R \ {p})
                    IN go(S)
Sat(n) == IF n > Cap THEN Cap ELSE n
NewValue(c, tab, f, m) == Sat(SumOver(Inputs(c, f, m), LAMBDA p : tab[p]))

Init == cv \in Covers /\ x = [p \in PairsOf(cv.c) |-> 1] /\ updates = 0
Update == \E p \in PairsOf(cv.c) :
             /\ NewValue(cv.c, x, p[1], p[2]) # x[p]
             /\ x' = [x EXCEPT ![p] = NewValue(cv.c, x, p[1], p[2])]
             /\ updates' = updates + 1 /\ UNCHANGED cv
Next == Update
Spec == Init /\ [][Next]_vars
FairSpec == Spec /\ WF_vars(Next)
View == <<cv, x>>

Quiescent == \A p \in PairsOf(cv.c) : NewValue(cv.c, x, p[1], p[2]) = x[p]
C17_TreeFixedPointUnique == (Quiescent /\ cv.tree) => \A p \in PairsOf(cv.c) : x[p] = 0
C17_AnyFixedPointIsZero == Quiescent => \A p \in PairsOf(cv.c) : x[p] = 0       \* false on cyclic covers (deviation cfg)
C17_TreeConverges == <>Quiescent
=============================================================================
