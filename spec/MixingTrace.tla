----------------------------- MODULE MixingTrace -----------------------------
(* JUDGE for C13 and C14.  Values are logged as [.., n, ok, D] with the dictated denominator D
   (2*E_t for mixing matrices, the mean numerator for excess distributions, W for means,
   the non-zero mass for the inversion), recomputed and checked here.               *)
EXTENDS Mixing, IOUtils, SequencesExt
FoldSeqSum(s) == FoldSeq(LAMBDA x, acc : x + acc, 0, s)
Traces == JsonDeserialize(IOEnv.TRACE_FILE)
VARIABLE tid

RowsOK(rows) == \A i \in DOMAIN rows : rows[i].ok
MatTab(rows) == {<<<<rows[i].a, rows[i].b>>, rows[i].n>> : i \in DOMAIN rows}
DistTab(rows) == {<<rows[i].k, rows[i].n>> : i \in DOMAIN rows}

(* ---- C13 ---- *)
ExpectedMatrix(n, t) == {<<k, EndsCount(n, t, k[1], k[2])>> : k \in KeyPairs(n, t)}
PlainDeg(g, v) == Cardinality({e \in DOMAIN g : v \in e})
OverallEnds(g) == UNION {{<<Min2(e), Other(e, Min2(e))>>, <<Other(e, Min2(e)), Min2(e)>>} : e \in DOMAIN g}
ExpectedOverall(g) == LET ends == OverallEnds(g)
                          kk(p) == <<<<PlainDeg(g, p[1]) - 1>>, <<PlainDeg(g, p[2]) - 1>>>>
                      IN {<<k, Cardinality({p \in ends : kk(p) = k})>> : k \in {kk(p) : p \in ends}}
CallFailed(n, c) ==
    {x \in {"matrix_missing_or_extra_topology", "value_not_multiple_of_1_over_2E", "wrong_denominator", "not_exact", "not_symmetric", "does_not_sum_to_one"} :
       LET mats == c.matrices
           present == {t \in SetOf(n.tops) : TrueE(n, t) > 0}
           M(t) == mats[CHOOSE i \in DOMAIN mats : mats[i].t = t].rows
       IN CASE x = "matrix_missing_or_extra_topology" -> ~(present \subseteq {mats[i].t : i \in DOMAIN mats}) \/ \E i \in DOMAIN mats : mats[i].t \notin SetOf(n.tops)
            [] x = "value_not_multiple_of_1_over_2E" -> \E i \in DOMAIN mats : ~RowsOK(mats[i].rows)
            [] x = "wrong_denominator" -> \E i \in DOMAIN mats : \E j \in DOMAIN mats[i].rows : mats[i].t \in SetOf(n.tops) /\ mats[i].rows[j].D # 2 * TrueE(n, mats[i].t)
            [] x = "not_exact" -> \E t \in present : t \in {mats[i].t : i \in DOMAIN mats} /\ MatTab(M(t)) # ExpectedMatrix(n, t)
            [] x = "not_symmetric" -> \E i \in DOMAIN mats : \E r \in MatTab(mats[i].rows) : <<<<r[1][2], r[1][1]>>, r[2]>> \notin MatTab(mats[i].rows)
            [] x = "does_not_sum_to_one" -> \E i \in DOMAIN mats : mats[i].rows # <<>> /\
                     FoldSeqSum([j \in DOMAIN mats[i].rows |-> mats[i].rows[j].n]) # mats[i].rows[1].D}
FailedC13(t) ==
    LET n == NetOf(t) IN
    IF t.raised # "" THEN {"raised"} ELSE
    UNION {CallFailed(n, t.calls[i]) : i \in DOMAIN t.calls}
    \cup (IF \E i \in DOMAIN t.calls : i > 1 /\ (t.calls[i].matrices # t.calls[1].matrices \/ t.calls[i].exkeys # t.calls[1].exkeys)
          THEN {"repeated_extraction_differs"} ELSE {})
    \cup (IF t.calls # <<>> /\ (t.first_again # t.calls[1].matrices \/ t.first_keys_again # t.calls[1].exkeys)
          THEN {"earlier_result_changed_by_a_later_extraction"} ELSE {})
    \cup (IF ~RowsOK(t.overall) THEN {"overall_value_not_multiple_of_1_over_2E"}
          ELSE IF \E j \in DOMAIN t.overall : t.overall[j].D # 2 * Cardinality(DOMAIN n.g) THEN {"overall_wrong_denominator"}
          ELSE IF MatTab(t.overall) # ExpectedOverall(n.g) THEN {"overall_degree_variant_not_exact"} ELSE {})

(* ---- C14 ---- *)
PW(t) == [k \in {t.P[i].k : i \in DOMAIN t.P} |-> t.P[CHOOSE i \in DOMAIN t.P : t.P[i].k = k].w]
FailedAlgebra(t) ==
    LET p == PW(t)
        Tn == Len(t.names)
        W == ISum(DOMAIN p, LAMBDA k : p[k])
        nz == NonZero(p)
        Wnz == ISum(nz, LAMBDA k : p[k])
    IN
    IF t.raised # "" THEN {"raised"} ELSE
    {x \in {"excess_law", "excess_denominator", "excess_not_exact_multiple", "mean_law", "inverse_raised", "inverse_is_not_identity", "inverse_denominator",
            "earlier_results_changed_by_this_conversion"} :
       CASE x = "excess_not_exact_multiple" -> \E i \in 1..Tn : ~RowsOK(t.excess[i])
         [] x = "excess_denominator" -> \E i \in 1..Tn : \E j \in DOMAIN t.excess[i] : t.excess[i][j].D # MeanNum(p, i)
         [] x = "excess_law" -> \E i \in 1..Tn : DistTab(t.excess[i]) # {<<Dec(k, i), k[i] * p[k]>> : k \in {y \in DOMAIN p : y[i] > 0}}
         [] x = "mean_law" -> t.check_mean /\ \E i \in 1..Tn : ~t.mean[i].ok \/ t.mean[i].D # W \/ t.mean[i].n # MeanNum(p, i)
         [] x = "inverse_raised" -> t.inv_raised # ""
         [] x = "earlier_results_changed_by_this_conversion" -> t.earlier_changed
         [] x = "inverse_denominator" -> t.inv_raised = "" /\ \E j \in DOMAIN t.inv : t.inv[j].D # Wnz
         [] x = "inverse_is_not_identity" -> t.inv_raised = "" /\
                 (~RowsOK(t.inv) \/ {r \in DistTab(t.inv) : r[2] # 0} # {<<k, p[k]>> : k \in nz})}
(* row sums of a supplied matrix (integer table over D) *)
FailedRowSum(t) ==
    IF t.raised # "" THEN {"raised"} ELSE
    {x \in {"row_sum_law"} :
       \E i \in DOMAIN t.mats :
          LET rows == t.mats[i].rows
              lefts == {rows[j].a : j \in DOMAIN rows}
              exp == {<<a, FoldSeqSum([j \in DOMAIN rows |-> IF rows[j].a = a THEN rows[j].w ELSE 0])>> : a \in lefts}
          IN ~RowsOK(t.sums[i]) \/ DistTab(t.sums[i]) # exp}
(* clean annotated network: row sums of the extracted matrix = excess distribution of the empirical jdd *)
FailedNetwork(t) ==
    IF t.raised # "" THEN {"raised"} ELSE
    {x \in {"row_sums_differ_from_excess_of_network_jdd"} :
       \E i \in DOMAIN t.rowsums :
          LET rs == t.rowsums[i]  ex == t.excess[i] IN
          ~RowsOK(rs) \/ ~RowsOK(ex) \/ {rs[j].k : j \in DOMAIN rs} # {ex[j].k : j \in DOMAIN ex}
          \/ \E j \in DOMAIN rs : \E l \in DOMAIN ex : rs[j].k = ex[l].k /\ rs[j].n * ex[l].D # ex[l].n * rs[j].D}

Failed(t) == CASE t.kind = "c13" -> FailedC13(t)
               [] t.kind = "algebra" -> FailedAlgebra(t)
               [] t.kind = "rowsum" -> FailedRowSum(t)
               [] t.kind = "network" -> FailedNetwork(t)
               [] OTHER -> {"unknown_kind"}
TInit == tid = 0 /\ MInit
TNext == /\ tid < Len(Traces) /\ tid' = tid + 1
         /\ LET f == Failed(Traces[tid']) IN
            PrintT("VERDICT " \o ToJson([tid |-> tid', v |-> IF f = {} THEN "ok" ELSE "violation:" \o (CHOOSE c \in f : TRUE), failed |-> f]))
         /\ UNCHANGED <<mvars, vars>>
TSpec == tid = 0 /\ mode = "judge" /\ nt = <<>> /\ numEdges = <<>> /\ calls = 0 /\ out = <<>> /\ P = <<>> /\ names = <<>>
         /\ obs = <<>> /\ merged = <<>> /\ phase = "judge" /\ net = <<>> /\ G = <<>> /\ swaps = 0
         /\ [][TNext]_<<mvars, vars, tid>>
=============================================================================
