SPECIFICATION TSpec
CONSTANT Nets = {}
CONSTANT PinnedIds = FALSE
CONSTANT NoLoopCheck = FALSE
CONSTANT MaxSwaps = 0
CHECK_DEADLOCK FALSE
