--------------------------- MODULE ConversionTrace ---------------------------
(* JUDGE for C04.  One record = one edge list pushed through
   EdgeListToNetwork.convert -> project -> NetworkToEdgeList.convert -> project ->
   EdgeListToNetwork.convert -> project.  Clauses are those of Conversion.tla,
   evaluated on the logged projections only.                                   *)
EXTENDS Naturals, Sequences, FiniteSets, TLC, Json, IOUtils
Traces == JsonDeserialize(IOEnv.TRACE_FILE)
VARIABLE tid
UP(a, b) == {a, b}
SetOf(s) == {s[i] : i \in DOMAIN s}
Rec(r) == [top |-> r.top, mid |-> r.mid]

Failed(t) ==
    LET N == Len(t.jds)
        rows == t.rows
        pairs == {UP(rows[i].a, rows[i].b) : i \in DOMAIN rows}
        G == t.G
        gpairs == {UP(G.edges[i].a, G.edges[i].b) : i \in DOMAIN G.edges}
        GAttr(p) == {Rec(G.edges[i]) : i \in {j \in DOMAIN G.edges : UP(G.edges[j].a, G.edges[j].b) = p}}
        Occ(p) == {i \in DOMAIN rows : UP(rows[i].a, rows[i].b) = p}
        B == t.el2
        bpairs == {UP(B.rows[i].a, B.rows[i].b) : i \in DOMAIN B.rows}
        G2 == t.G2
        Proj(g) == [nodes |-> SetOf(g.nodes),
                    jd |-> {<<g.nodes[i], g.jd[i]>> : i \in DOMAIN g.nodes},
                    edges |-> {<<UP(g.edges[i].a, g.edges[i].b), g.edges[i].top, g.edges[i].mid>> : i \in DOMAIN g.edges}]
    IN
    IF t.raised_fwd # "" THEN {"raised_forward"} ELSE
    LET fwd ==
        {c \in {"nodes", "node_jd", "edges", "attr_once", "edge_once_in_graph"} :
           CASE c = "nodes" -> SetOf(G.nodes) # 0..(N - 1) \/ Len(G.nodes) # N
             [] c = "node_jd" -> \E i \in DOMAIN G.nodes : G.nodes[i] \in 0..(N - 1) /\ G.jd[i] # t.jds[G.nodes[i] + 1]
             [] c = "edges" -> gpairs # pairs
             [] c = "edge_once_in_graph" -> Len(G.edges) # Cardinality(gpairs)
             [] c = "attr_once" -> \E i \in DOMAIN rows :
                                     LET p == UP(rows[i].a, rows[i].b) IN
                                     Cardinality(Occ(p)) = 1 /\ p \in gpairs /\ GAttr(p) # {Rec(rows[i])}}
    IN IF fwd # {} THEN fwd
    ELSE IF t.raised_back # "" THEN {"raised_back"} ELSE
    LET back ==
        {c \in {"back_jds", "back_parallel", "back_rows", "back_attr"} :
           CASE c = "back_jds" -> B.jds # t.jds
             [] c = "back_parallel" -> ~B.parallel
             [] c = "back_rows" -> B.parallel /\ (bpairs # gpairs \/ Len(B.rows) # Cardinality(gpairs))
             [] c = "back_attr" -> B.parallel /\ \E i \in DOMAIN B.rows :
                                     LET p == UP(B.rows[i].a, B.rows[i].b) IN p \in gpairs /\ GAttr(p) # {Rec(B.rows[i])}}
    IN IF back # {} THEN back
    ELSE IF t.held_el_after # t.held_el_before \/ t.held_g_after # t.held_g_before THEN {"earlier_result_changed_by_a_later_conversion"}
    ELSE IF t.el2_after_edit # t.el2_before_edit THEN {"converted_edge_list_follows_later_edits_of_the_network"}
    ELSE IF t.raised_again # "" THEN {"raised_again"}
    ELSE IF Proj(G2) # Proj(G) THEN {"roundtrip"} ELSE {}

Verdict(t) == LET f == Failed(t) IN IF f = {} THEN "ok" ELSE "violation:" \o (CHOOSE c \in f : TRUE)
Init == tid = 0
Next == /\ tid < Len(Traces) /\ tid' = tid + 1
        /\ PrintT("VERDICT " \o ToJson([tid |-> tid', v |-> Verdict(Traces[tid']), failed |-> Failed(Traces[tid'])]))
Spec == Init /\ [][Next]_tid
=============================================================================
