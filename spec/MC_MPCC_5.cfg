SPECIFICATION Spec
CONSTANT MaxV = 5
CONSTANT Limits = {0, 2, 3, 4}
CONSTANT MaxCovers = 1
CONSTANT SmallFirst = FALSE
INVARIANT C10_LabelIsWholeClique
INVARIANT C10_EveryEdgeOneLabel
INVARIANT C10_GreedyMaximal
INVARIANT C10_ClaimedIsCover
CHECK_DEADLOCK FALSE
