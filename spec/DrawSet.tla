------------------------------ MODULE DrawSet ------------------------------
(* gcmpy/tools/draw_set.py: a list of members plus an element -> index map;
   removal moves the last member into the vacated slot.  Property C20.
   The state is exactly the two fields of the class (positions are 1-based
   here, 0-based in Python; the encoder adds 1).  `model` is the plain set a
   user has in mind; `last` is the observation returned by the last call.   *)
EXTENDS Naturals, Sequences, FiniteSets

CONSTANT U                      \* element universe

VARIABLES edges, hmap, model, last
vars == <<edges, hmap, model, last>>

Range(s) == {s[i] : i \in DOMAIN s}
NoDup(s) == \A i, j \in DOMAIN s : s[i] = s[j] => i = j
Members == Range(edges)

(* ---- the implementation, as functions on [edges, hmap] ---- *)
AddF(st, e) ==
    IF e \in DOMAIN st.hmap THEN st
    ELSE [edges |-> Append(st.edges, e),
          hmap  |-> [x \in DOMAIN st.hmap \cup {e} |->
                        IF x = e THEN Len(st.edges) + 1 ELSE st.hmap[x]]]

(* requires e \in DOMAIN st.hmap; otherwise the code raises KeyError before touching anything *)
RemoveF(st, e) ==
    LET pos  == st.hmap[e]
        n    == Len(st.edges)
        lastItem == st.edges[n]
        body == SubSeq(st.edges, 1, n - 1)
        hm0  == [x \in DOMAIN st.hmap \ {e} |-> st.hmap[x]]
    IN  IF pos # n
        THEN [edges |-> [body EXCEPT ![pos] = lastItem],
              hmap  |-> [hm0 EXCEPT ![lastItem] = pos]]
        ELSE [edges |-> body, hmap |-> hm0]

(* the pinned-tree shape of a well known slip, kept as a named deviation so the
   MC can show the invariants are able to see it: no index fix-up for the moved element *)
RemoveF_NoFixup(st, e) ==
    LET pos  == st.hmap[e]
        n    == Len(st.edges)
        body == SubSeq(st.edges, 1, n - 1)
        hm0  == [x \in DOMAIN st.hmap \ {e} |-> st.hmap[x]]
    IN  IF pos # n THEN [edges |-> [body EXCEPT ![pos] = st.edges[n]], hmap |-> hm0]
        ELSE [edges |-> body, hmap |-> hm0]

St == [edges |-> edges, hmap |-> hmap]

Init == edges = <<>> /\ hmap = <<>> /\ model = {} /\ last = [op |-> "init"]

Add(e) ==
    LET n == AddF(St, e) IN
    /\ edges' = n.edges /\ hmap' = n.hmap
    /\ model' = model \cup {e}
    /\ last' = [op |-> "add", arg |-> e]

Remove(e) ==
    /\ e \in DOMAIN hmap
    /\ LET n == RemoveF(St, e) IN edges' = n.edges /\ hmap' = n.hmap
    /\ model' = model \ {e}
    /\ last' = [op |-> "remove", arg |-> e]

Remove_NoFixup(e) ==
    /\ e \in DOMAIN hmap
    /\ LET n == RemoveF_NoFixup(St, e) IN edges' = n.edges /\ hmap' = n.hmap
    /\ model' = model \ {e}
    /\ last' = [op |-> "remove", arg |-> e]

RemoveAbsent(e) ==
    /\ e \notin DOMAIN hmap
    /\ UNCHANGED <<edges, hmap, model>>
    /\ last' = [op |-> "remove_absent", arg |-> e, raised |-> TRUE]

(* crash point: the argument is a tuple that cannot be hashed (e.g. it holds a list).  A plain set raises TypeError
   and is untouched; so is the model.  What happened is visible only through `last`. *)
AddUnhashable ==
    /\ UNCHANGED <<edges, hmap, model>>
    /\ last' = [op |-> "add_unhashable", raised |-> TRUE]

Draw(i) ==
    /\ i \in 1..Len(edges)
    /\ UNCHANGED <<edges, hmap, model>>
    /\ last' = [op |-> "draw", res |-> edges[i]]

Observe ==
    /\ UNCHANGED <<edges, hmap, model>>
    /\ last' = [op |-> "observe", len |-> Len(edges), iter |-> edges,
                contains |-> {e \in U : e \in DOMAIN hmap}]

DrawAny == \E i \in 1..Len(edges) : Draw(i)

Next == \/ \E e \in U : Add(e) \/ Remove(e) \/ RemoveAbsent(e)
        \/ AddUnhashable
        \/ DrawAny
        \/ Observe

NextDeviant == \/ \E e \in U : Add(e) \/ Remove_NoFixup(e) \/ RemoveAbsent(e)
               \/ DrawAny
               \/ Observe

Spec == Init /\ [][Next]_vars
SpecDeviant == Init /\ [][NextDeviant]_vars

(* ---- properties ---- *)
C20_Representation ==
    /\ NoDup(edges)
    /\ DOMAIN hmap = Members
    /\ \A e \in DOMAIN hmap : hmap[e] \in 1..Len(edges) /\ edges[hmap[e]] = e

C20_RefinesSet == Members = model              \* add / remove / absent-remove act as on a plain set

C20_DrawIsMember == last.op = "draw" => last.res \in model

C20_EveryMemberDrawable == \A e \in model : \E i \in 1..Len(edges) : ENABLED Draw(i) /\ edges[i] = e

C20_LenIterContains ==
    last.op = "observe" =>
        /\ last.len = Cardinality(model)
        /\ Range(last.iter) = model /\ NoDup(last.iter) /\ Len(last.iter) = last.len
        /\ last.contains = model

C20_AbsentRemoveHarmless ==
    [][\A e \in U : (e \notin model /\ last'.op = "remove_absent") => UNCHANGED <<edges, hmap, model>>]_vars

C20_FailedCallHarmless ==      \* any call that raises (absent removal, unhashable insertion) leaves the structure as it was
    [][(last'.op \in {"remove_absent", "add_unhashable"}) => UNCHANGED <<edges, hmap, model>>]_vars

C20_AddPresentNoop ==
    [][\A e \in U : (e \in model /\ last'.op = "add" /\ last'.arg = e) => UNCHANGED <<edges, hmap, model>>]_vars

TypeOK == edges \in Seq(U) /\ model \subseteq U
=============================================================================
