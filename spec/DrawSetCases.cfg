SPECIFICATION CSpec
CONSTANT U = {1, 2, 3}
CONSTRAINT Bound
INVARIANT Emit
INVARIANT C20_Representation
INVARIANT C20_RefinesSet
CHECK_DEADLOCK FALSE
