-------------------------------- MODULE MPCC --------------------------------
(* gcmpy/covers/mpcc.py (C10): enumerate all cliques, shuffle, stable-sort by size
   descending, accept a clique iff all its pairs are still unclaimed, label.
   The shuffle followed by the stable sort is 'any order that is non-increasing in
   size': Consider picks ANY remaining clique of the currently largest size.      *)
EXTENDS CliqueOps, Sequences, TLC

CONSTANTS MaxV, Limits, SmallFirst, MaxCovers

VARIABLES n, g, limit, remaining, claimed, cover, phase, covers
vars == <<n, g, limit, remaining, claimed, cover, phase, covers>>

Graphs(k) == {x \in SUBSET Pairs(1..k) : x # {}}
Init == /\ n \in 2..MaxV /\ g \in Graphs(n) /\ limit \in Limits
        /\ remaining = Cliques(g) /\ claimed = {} /\ cover = {} /\ phase = "consider" /\ covers = 1

Size(c) == Cardinality(c)
NextSizes == IF SmallFirst                                         \* deviation: reverse=True dropped
             THEN {c \in remaining : \A d \in remaining : Size(d) >= Size(c)}
             ELSE {c \in remaining : \A d \in remaining : Size(d) <= Size(c)}
Consider ==
    /\ phase = "consider" /\ remaining # {}
    /\ \E c \in NextSizes :
          /\ remaining' = remaining \ {c}
          /\ IF limit > 0 /\ Size(c) > limit
             THEN UNCHANGED <<claimed, cover>>
             ELSE IF Pairs(c) \cap claimed = {}
                  THEN claimed' = claimed \cup Pairs(c) /\ cover' = cover \cup {c}
                  ELSE UNCHANGED <<claimed, cover>>
    /\ UNCHANGED <<n, g, limit, phase, covers>>
Label == /\ phase = "consider" /\ remaining = {} /\ phase' = "done"
         /\ UNCHANGED <<n, g, limit, remaining, claimed, cover, covers>>
(* history on one graph object: the graph is edited (one edge moved, so vertex and edge counts stay the same; or only
   the limit changes) and covered again: the new cover is computed from the CURRENT graph *)
EditAndCoverAgain ==
    /\ phase = "done" /\ covers < MaxCovers
    /\ \E e \in g : \E f \in (Pairs(1..n) \ g) \cup {e} :
          /\ g' = (g \ {e}) \cup {f}
          /\ remaining' = Cliques(g')
    /\ limit' \in Limits
    /\ claimed' = {} /\ cover' = {} /\ phase' = "consider" /\ covers' = covers + 1 /\ UNCHANGED n
Next == Consider \/ Label \/ EditAndCoverAgain
Spec == Init /\ [][Next]_vars

(* --------------- properties (also used verbatim by the JUDGE on recorded covers) --------------- *)
Within(c, lim) == lim = 0 \/ Size(c) <= lim
WholeCliques(gr, cv, lim) == \A c \in cv : Pairs(c) \subseteq gr /\ Within(c, lim)
Disjoint(cv) == \A c, d \in cv : c # d => Pairs(c) \cap Pairs(d) = {}
EveryEdgeCovered(gr, cv) == UNION {Pairs(c) : c \in cv} = gr
GreedyMaximal(gr, cv, lim) ==
    \A k \in Cliques(gr) : Within(k, lim) => \E c \in cv : Size(c) >= Size(k) /\ Pairs(c) \cap Pairs(k) # {}

C10_LabelIsWholeClique == WholeCliques(g, cover, limit) /\ Disjoint(cover)
C10_EveryEdgeOneLabel == (phase = "done" /\ limit # 1) => EveryEdgeCovered(g, cover)
C10_GreedyMaximal == phase = "done" => GreedyMaximal(g, cover, limit)
C10_ClaimedIsCover == claimed = UNION {Pairs(c) : c \in cover}
=============================================================================
