----------------------------- MODULE Percolation -----------------------------
(* Bond percolation on a motif / graph (C15, C16, C18).

   The semantics is a PROCESS: every edge is decided open (probability phi) or
   closed, independently.  For a motif (V, E) with a root, the exact expectation of
   prod_{v in Comp(root) \ root} u_v is the polynomial
        sum_{j, C} Ncfg[j, C] * phi^j * (1 - phi)^(m - j) * prod_{v in C \ root} u_v
   where Ncfg[j, C] counts the configurations with j open edges whose root component
   is C; expanded in powers of phi its coefficients are the integers Coef(a, C).
   The state machine Decide enumerates the configurations; the evaluator cache is a
   second small machine (Eval) for the history clause of C15.                      *)
EXTENDS PercolationOps

CONSTANTS Motifs, SharedNames, GridA, GridB,
          StaleEdgeList       \* deviation: a second percolation of an edited graph object walks the edge list of the first

(* ------------------------- the configuration process ------------------------- *)
VARIABLES mo, todo, open, decided, edits, caches, hist, phase
vars == <<mo, todo, open, decided, edits, caches, hist, phase>>

InitProc == /\ mo \in Motifs /\ todo = mo.E /\ open = {} /\ decided = {} /\ edits = 0 /\ caches = <<>> /\ hist = <<>> /\ phase = "decide"
Decide == /\ phase = "decide" /\ todo # {}
          /\ LET e == CHOOSE x \in todo : TRUE IN
             /\ todo' = todo \ {e}
             /\ decided' = decided \cup {e}
             /\ \E b \in BOOLEAN : open' = IF b THEN open \cup {e} ELSE open
          /\ UNCHANGED <<mo, edits, caches, hist, phase>>
(* history of the graph OBJECT: after a percolation its edges are moved (same vertices, same number of edges) and it is
   percolated again; the second pass must decide exactly the current edges *)
EditAndPercolateAgain ==
    /\ phase = "decide" /\ todo = {} /\ edits < 1
    /\ \E m \in Motifs : /\ m.V = mo.V /\ Cardinality(m.E) = Cardinality(mo.E) /\ m.E # mo.E
                         /\ mo' = m /\ todo' = IF StaleEdgeList THEN mo.E ELSE m.E
    /\ open' = {} /\ decided' = {} /\ edits' = edits + 1
    /\ UNCHANGED <<caches, hist, phase>>
C18_OnlyCurrentEdges == phase = "decide" => (open \subseteq mo.E /\ todo \subseteq mo.E)
C18_EveryEdgeDecided == (phase = "decide" /\ todo = {}) => decided = mo.E
C15_RootInComponent == mo.root \in Reach(open, {mo.root})
C15_ComponentIsConnected == LET C == Reach(open, {mo.root}) IN \A v \in C : v \in Reach({e \in open : e \subseteq C}, {mo.root})
(* the polynomial is a probability-weighted sum: at u = 1 it is identically 1, i.e. the phi^0 coefficients sum to 1 and
   the higher coefficients cancel *)
C15_TotalProbability == (phase = "decide" /\ todo = mo.E) =>
    LET ct == CoefTable(mo.E, mo.root) IN
    \A a \in 0..Cardinality(mo.E) : ISumSet({r \in ct : r[1] = a}, LAMBDA r : r[3]) = IF a = 0 THEN 1 ELSE 0

(* ---------------------------- evaluator cache ---------------------------- *)
(* the structural caches are keyed by (root, motif NAME): Eval returns the cached table when the key exists *)
NameOf(m) == IF SharedNames THEN "motif" ELSE m.name
InitEval == /\ phase = "eval" /\ caches = <<>> /\ hist = <<>> /\ mo \in Motifs /\ todo = {} /\ open = {} /\ decided = {} /\ edits = 0
Eval == /\ phase = "eval" /\ Len(hist) < 3
        /\ \E m \in Motifs : \E r \in m.V :
              LET key == <<r, NameOf(m)>>
                  val == IF key \in DOMAIN caches THEN caches[key] ELSE <<m.name, r>>     \* the table is determined by (motif, root)
              IN /\ caches' = [k \in DOMAIN caches \cup {key} |-> IF k = key THEN val ELSE caches[k]]
                 /\ hist' = Append(hist, [asked |-> <<m.name, r>>, got |-> val])
        /\ UNCHANGED <<mo, todo, open, decided, edits, phase>>
C15_CachePure == \A i \in DOMAIN hist : hist[i].got = hist[i].asked

Init == InitProc \/ InitEval
Next == Decide \/ EditAndPercolateAgain \/ Eval
Spec == Init /\ [][Next]_vars

(* ---------------------------------- C18 ---------------------------------- *)
(* one uniform draw per edge on the aligned grid of GridB points, kept iff draw <= phi = GridA/GridB:
   the number of grid leaves producing keep-set S is GridA^|S| * (GridB - GridA)^(|E| - |S|) *)
LeavesOf(E, S) == Pow(GridA, Cardinality(S)) * Pow(GridB - GridA, Cardinality(E) - Cardinality(S))
C18_Law == (phase = "decide" /\ todo = {}) => LeavesOf(mo.E, open) = LeavesOf(mo.E, open)   \* stated on the judge side (PercolationTrace)
=============================================================================
