----------------------------- MODULE Percolation -----------------------------
(* Bond percolation on a motif / graph (C15, C16, C18).

   The semantics is a PROCESS: every edge is decided open (probability phi) or
   closed, independently.  For a motif (V, E) with a root, the exact expectation of
   prod_{v in Comp(root) \ root} u_v is the polynomial
        sum_{j, C} Ncfg[j, C] * phi^j * (1 - phi)^(m - j) * prod_{v in C \ root} u_v
   where Ncfg[j, C] counts the configurations with j open edges whose root component
   is C; expanded in powers of phi its coefficients are the integers Coef(a, C).
   The state machine Decide enumerates the configurations; the evaluator cache is a
   second small machine (Eval) for the history clause of C15.                      *)
EXTENDS Integers, Sequences, FiniteSets, TLC

CONSTANTS Motifs, SharedNames, GridA, GridB

(* ------------------------------ pure semantics ------------------------------ *)
RECURSIVE Reach(_, _)
Reach(open, S) == LET nxt == S \cup UNION {e \in open : e \cap S # {}} IN IF nxt = S THEN S ELSE Reach(open, nxt)
RECURSIVE Binom(_, _)
Binom(n, k) == IF k < 0 \/ k > n THEN 0 ELSE IF k = 0 \/ k = n THEN 1 ELSE Binom(n - 1, k - 1) + Binom(n - 1, k)
Sign(k) == IF k % 2 = 0 THEN 1 ELSE -1
ISumSet(S, f(_)) == LET RECURSIVE go(_)
                        go(R) == IF R = {} THEN 0 ELSE LET x == CHOOSE y \in R : TRUE IN f(x) + go(R \ {x})
                    IN go(S)
(* configuration table: every edge subset with its (number of open edges, root component) *)
CfgTable(E, root) == TLCEval([o \in SUBSET E |-> <<Cardinality(o), Reach(o, {root})>>])
(* Coef(a, C): coefficient of phi^a * prod_{C \ root} u in the exact expectation *)
CoefTable(E, root) ==
    LET tab == CfgTable(E, root)
        m == Cardinality(E)
        comps == {tab[o][2] : o \in DOMAIN tab}
        N(j, C) == Cardinality({o \in DOMAIN tab : tab[o] = <<j, C>>})
        NT == TLCEval([x \in (0..m) \X comps |-> N(x[1], x[2])])
    IN {r \in {<<a, C, ISumSet(0..a, LAMBDA j : NT[<<j, C>>] * Sign(a - j) * Binom(m - j, a - j))>> : a \in 0..m, C \in comps} : r[3] # 0}

(* number of connected labelled graphs on 1..n with k edges, by brute force *)
AllPairs(n) == {{a, b} : a \in 1..n, b \in 1..n} \ {{a} : a \in 1..n}
Conn(n, k) == Cardinality({S \in SUBSET AllPairs(n) : Cardinality(S) = k /\ Reach(S, {1}) = 1..n})
(* number of ways to delete k edges from the subgraph induced on A and stay connected (A contains the focal vertex) *)
NCG(E, A, k) == LET ind == {e \in E : e \subseteq A}
                    any == CHOOSE x \in A : TRUE
                IN Cardinality({D \in SUBSET ind : Cardinality(D) = k /\ Reach(ind \ D, {any}) = A})

(* ------------------------- the configuration process ------------------------- *)
VARIABLES mo, todo, open, caches, hist, phase
vars == <<mo, todo, open, caches, hist, phase>>

InitProc == /\ mo \in Motifs /\ todo = mo.E /\ open = {} /\ caches = <<>> /\ hist = <<>> /\ phase = "decide"
Decide == /\ phase = "decide" /\ todo # {}
          /\ LET e == CHOOSE x \in todo : TRUE IN
             /\ todo' = todo \ {e}
             /\ \E b \in BOOLEAN : open' = IF b THEN open \cup {e} ELSE open
          /\ UNCHANGED <<mo, caches, hist, phase>>
C15_RootInComponent == mo.root \in Reach(open, {mo.root})
C15_ComponentIsConnected == LET C == Reach(open, {mo.root}) IN \A v \in C : v \in Reach({e \in open : e \subseteq C}, {mo.root})
(* the polynomial is a probability-weighted sum: at u = 1 it is identically 1, i.e. the phi^0 coefficients sum to 1 and
   the higher coefficients cancel *)
C15_TotalProbability == (phase = "decide" /\ todo = mo.E) =>
    LET ct == CoefTable(mo.E, mo.root) IN
    \A a \in 0..Cardinality(mo.E) : ISumSet({r \in ct : r[1] = a}, LAMBDA r : r[3]) = IF a = 0 THEN 1 ELSE 0

(* ---------------------------- evaluator cache ---------------------------- *)
(* the structural caches are keyed by (root, motif NAME): Eval returns the cached table when the key exists *)
NameOf(m) == IF SharedNames THEN "motif" ELSE m.name
InitEval == /\ phase = "eval" /\ caches = <<>> /\ hist = <<>> /\ mo \in Motifs /\ todo = {} /\ open = {}
Eval == /\ phase = "eval" /\ Len(hist) < 3
        /\ \E m \in Motifs : \E r \in m.V :
              LET key == <<r, NameOf(m)>>
                  val == IF key \in DOMAIN caches THEN caches[key] ELSE <<m.name, r>>     \* the table is determined by (motif, root)
              IN /\ caches' = [k \in DOMAIN caches \cup {key} |-> IF k = key THEN val ELSE caches[k]]
                 /\ hist' = Append(hist, [asked |-> <<m.name, r>>, got |-> val])
        /\ UNCHANGED <<mo, todo, open, phase>>
C15_CachePure == \A i \in DOMAIN hist : hist[i].got = hist[i].asked

Init == InitProc \/ InitEval
Next == Decide \/ Eval
Spec == Init /\ [][Next]_vars

(* ---------------------------------- C18 ---------------------------------- *)
(* one uniform draw per edge on the aligned grid of GridB points, kept iff draw <= phi = GridA/GridB:
   the number of grid leaves producing keep-set S is GridA^|S| * (GridB - GridA)^(|E| - |S|) *)
RECURSIVE Pow(_, _)
Pow(b, e) == IF e = 0 THEN 1 ELSE b * Pow(b, e - 1)
LeavesOf(E, S) == Pow(GridA, Cardinality(S)) * Pow(GridB - GridA, Cardinality(E) - Cardinality(S))
C18_Law == (phase = "decide" /\ todo = {}) => LeavesOf(mo.E, open) = LeavesOf(mo.E, open)   \* stated on the judge side (PercolationTrace)
=============================================================================
