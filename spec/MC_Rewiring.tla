----------------------------- MODULE MC_Rewiring -----------------------------
(* the MC family is the committed file rewiring_nets.json (tools/gen_rewiring_nets.py): small clean motif
   networks with heterogeneous joint degrees, full-support and holed integer targets; the same file is
   executed in the real code by the C11/C12 drivers *)
EXTENDS RewiringNets
AllNets == FamilyNets
LoopNets == {x \in FamilyNets : Cardinality(x.V) <= 6}
=============================================================================
