SPECIFICATION CSpec
CONSTANT MaxT = 2
CONSTANT MaxA = 2
CONSTANT MaxF = 1
CONSTANT MaxK = 4
CONSTANT PinnedReset = FALSE
CONSTANT PinnedAscending = FALSE
CONSTANT AccumulatingCreate = FALSE
CHECK_DEADLOCK FALSE
