------------------------------ MODULE MPCCTrace ------------------------------
(* JUDGE for C10: graph before, size limit, and after the call the node/edge sets and the
   parsed 'clique' label (size, member list, id) of every edge.                      *)
EXTENDS MPCC, Json, IOUtils
Traces == JsonDeserialize(IOEnv.TRACE_FILE)
VARIABLE tid
SetOf(s) == {s[i] : i \in DOMAIN s}
EdgeSet(es) == {{es[i][1], es[i][2]} : i \in DOMAIN es}

Failed(t) ==
    LET gr == EdgeSet(t.edges)
        L == t.labels
        lab(i) == <<L[i].size, L[i].members, L[i].id>>
        labs == {lab(i) : i \in DOMAIN L}
        EdgesWith(x) == {{L[i].a, L[i].b} : i \in {j \in DOMAIN L : lab(j) = x}}
        cv == {SetOf(x[2]) : x \in labs}
    IN
    IF t.raised # "" THEN {"raised"} ELSE
    IF SetOf(t.nodes_after) # SetOf(t.nodes) \/ EdgeSet(t.edges_after) # gr \/ Len(t.edges_after) # Len(t.edges)
       \/ t.other_attrs_changed \/ ~t.returned_input THEN {"graph_changed"} ELSE
    IF \E i \in DOMAIN L : ~L[i].has THEN {"edge_without_label"} ELSE
    IF \E i \in DOMAIN L : ~L[i].parse_ok THEN {"label_not_of_the_form_size-members-id"} ELSE
    {c \in {"stated_size_is_not_member_count", "member_listed_twice", "over_size_limit", "edge_not_inside_its_label",
            "label_is_not_a_whole_clique", "id_shared_by_two_cliques", "clique_with_two_ids", "not_greedy_maximal"} :
       CASE c = "stated_size_is_not_member_count" -> \E x \in labs : x[1] # Len(x[2])
         [] c = "member_listed_twice" -> \E x \in labs : Cardinality(SetOf(x[2])) # Len(x[2])
         [] c = "over_size_limit" -> t.limit > 0 /\ \E x \in labs : Len(x[2]) > t.limit
         [] c = "edge_not_inside_its_label" -> \E i \in DOMAIN L : ~({L[i].a, L[i].b} \subseteq SetOf(L[i].members))
         [] c = "label_is_not_a_whole_clique" -> \E x \in labs : EdgesWith(x) # Pairs(SetOf(x[2]))
         [] c = "id_shared_by_two_cliques" -> \E x, y \in labs : x # y /\ x[3] = y[3]
         [] c = "clique_with_two_ids" -> \E x, y \in labs : x # y /\ SetOf(x[2]) = SetOf(y[2])
         [] c = "not_greedy_maximal" -> ~GreedyMaximal(gr, cv, t.limit)}

TInit == tid = 0 /\ n = 0 /\ g = {} /\ limit = 0 /\ remaining = {} /\ claimed = {} /\ cover = {} /\ phase = "judge" /\ covers = 0
TNext == /\ tid < Len(Traces) /\ tid' = tid + 1
         /\ LET f == Failed(Traces[tid']) IN
            PrintT("VERDICT " \o ToJson([tid |-> tid', v |-> IF f = {} THEN "ok" ELSE "violation:" \o (CHOOSE c \in f : TRUE), failed |-> f]))
         /\ UNCHANGED vars
TSpec == TInit /\ [][TNext]_<<vars, tid>>
=============================================================================
