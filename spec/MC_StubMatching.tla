--------------------------- MODULE MC_StubMatching ---------------------------
EXTENDS StubMatching
Edge == <<<<1, 2>>>>
Tri == <<<<1, 2>>, <<1, 3>>, <<2, 3>>>>
Path3 == <<<<1, 2>>, <<2, 3>>>>                 \* exactly two edges
Single == <<>>                                   \* size-1 motif without edges
Mo(orbits, shape, bare) == [orbits |-> orbits, shape |-> shape, bare |-> bare]
FastConfigs ==
    { [sizes |-> <<2>>, motifs |-> <<Mo(<<1>>, Edge, FALSE)>>, custom |-> FALSE],
      [sizes |-> <<3>>, motifs |-> <<Mo(<<1>>, Tri, FALSE)>>, custom |-> FALSE],
      [sizes |-> <<2, 3>>, motifs |-> <<Mo(<<1>>, Edge, FALSE), Mo(<<2>>, Tri, FALSE)>>, custom |-> FALSE],
      [sizes |-> <<1, 3>>, motifs |-> <<Mo(<<1>>, Single, FALSE), Mo(<<2>>, Path3, FALSE)>>, custom |-> FALSE] }
CustomConfigs ==
    { [sizes |-> <<2>>, motifs |-> <<Mo(<<1>>, Edge, TRUE)>>, custom |-> TRUE],
      [sizes |-> <<3>>, motifs |-> <<Mo(<<1>>, Path3, FALSE)>>, custom |-> TRUE],
      [sizes |-> <<2, 3>>, motifs |-> <<Mo(<<1>>, Edge, TRUE), Mo(<<2>>, Tri, FALSE)>>, custom |-> TRUE],
      \* a two-orbit motif: one hub (orbit column 1, size 1) and two leaves (orbit column 2, size 2)
      [sizes |-> <<1, 2>>, motifs |-> <<Mo(<<1, 2>>, <<<<1, 2>>, <<1, 3>>>>, FALSE)>>, custom |-> TRUE],
      \* motif index differs from the index of its first orbit column, and the sizes at the two indexes differ
      [sizes |-> <<1, 2, 3>>, motifs |-> <<Mo(<<1, 2>>, <<<<1, 2>>, <<1, 3>>>>, FALSE), Mo(<<3>>, Tri, FALSE)>>, custom |-> TRUE] }
AllConfigs == FastConfigs \cup CustomConfigs
LeakAll == "all"
LeakColumns == "columns"
=============================================================================
