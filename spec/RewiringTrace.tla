---------------------------- MODULE RewiringTrace ----------------------------
(* JUDGE for C11 and C12.  A record holds the input network (before and after the
   call), the target, the returned graph and - when the swap_condition wrapper
   attached - every Metropolis call: focal vertices, the two corners in the order
   the code paired them, the uniform draw (aligned grid point j of W), the result,
   and the graph snapshot whenever it changed.  Which clause set is judged is
   selected by IOEnv.PROPERTY.                                                   *)
EXTENDS RewiringNets, IOUtils
Traces == JsonDeserialize(IOEnv.TRACE_FILE)
Which == IOEnv.PROPERTY
VARIABLE tid
(* C11 clauses between the input graph g0 and any later graph h; shape0 / deg0 are computed once per trace *)
Struct(nt, g0, shape0, deg0, h) ==
    {c \in {"edge_count_changed", "degree_per_topology_changed", "self_loop", "vertex_outside_input", "motif_ids_changed", "motif_shape_changed"} :
       CASE c = "edge_count_changed" -> Cardinality(DOMAIN h) # Cardinality(DOMAIN g0)
         [] c = "degree_per_topology_changed" -> AllTops(h) # AllTops(g0) \/ \E x \in DOMAIN deg0 : Deg(h, x[1], x[2]) # deg0[x]
         [] c = "self_loop" -> \E e \in DOMAIN h : Cardinality(e) # 2
         [] c = "vertex_outside_input" -> ~(UNION DOMAIN h \subseteq nt.V)
         [] c = "motif_ids_changed" -> MotifIds(h) # DOMAIN shape0
         [] c = "motif_shape_changed" -> \E m \in DOMAIN shape0 : ShapeOf(h, m) # shape0[m]}

(* the Metropolis rule exactly as swap_condition pairs and multiplies (integer weights, u = (2j+1)/(2W)) *)
RECURSIVE PairUp(_, _, _, _)
PairUp(g, e0s, pool, acc) ==      \* pool : topology -> remaining e1 list (popped from the end)
    IF e0s = <<>> THEN acc
    ELSE LET e0 == Head(e0s)
             tp == g[{e0[1], e0[2]}].top
             lst == pool[tp]
         IN IF lst = <<>> THEN acc
            ELSE PairUp(g, Tail(e0s), [pool EXCEPT ![tp] = SubSeq(lst, 1, Len(lst) - 1)], Append(acc, <<e0, lst[Len(lst)]>>))
PoolOfE1(g, e1s) == [tp \in {g[{e1s[i][1], e1s[i][2]}].top : i \in DOMAIN e1s} |->
                        SelectSeq(e1s, LAMBDA e : g[{e[1], e[2]}].top = tp)]
Expected(nt, g, st) ==
    LET u0 == st.u0  v0 == st.v0
        pairs == PairUp(g, st.e0s, PoolOfE1(g, st.e1s), <<>>)
        RECURSIVE num(_, _)
        num(i, acc) ==        \* returns <<decided, accept-so-far, product>>
            IF i > Len(pairs) THEN <<TRUE, acc>>
            ELSE LET e0 == pairs[i][1]  e1 == pairs[i][2]
                     u1 == e0[2]  v1 == e1[2]
                     tp == g[{u0, u1}].top
                     ku0v1 == Key(nt, u0, v1, tp)  kv0u1 == Key(nt, v0, u1, tp)
                     start == {Key(nt, u0, u1, tp), Key(nt, u1, u0, tp), Key(nt, v0, v1, tp), Key(nt, v1, v0, tp)}
                 IN IF {ku0v1, kv0u1} \subseteq start THEN <<FALSE, 0>>
                    ELSE IF acc * TW(nt, tp, ku0v1) * TW(nt, tp, kv0u1) = 0 THEN <<FALSE, 0>>
                    ELSE num(i + 1, acc * TW(nt, tp, ku0v1) * TW(nt, tp, kv0u1))
        top == num(1, 1)
        RECURSIVE den(_, _)
        den(i, acc) == IF i > Len(st.e0s) \/ i > Len(st.e1s) THEN acc
                       ELSE LET e0 == st.e0s[i]  e1 == st.e1s[i] IN
                            den(i + 1, acc * TW(nt, g[{e0[1], e0[2]}].top, Key(nt, e0[1], e0[2], g[{e0[1], e0[2]}].top))
                                           * TW(nt, g[{e1[1], e1[2]}].top, Key(nt, e1[1], e1[2], g[{e1[1], e1[2]}].top)))
        bottom == den(1, 1)
    IN IF ~top[1] THEN [decided |-> TRUE, accept |-> FALSE, needs_draw |-> FALSE]
       ELSE IF bottom = 0 THEN [decided |-> FALSE, accept |-> FALSE, needs_draw |-> FALSE]
       ELSE [decided |-> st.drew, accept |-> st.drew /\ (IF st.uz THEN top[2] > 0 ELSE top[2] * 2 * st.W > bottom * (2 * st.j + 1)), needs_draw |-> TRUE]

(* L1 distance between the mixing matrix of topology tp in graph g and the normalised target, in units of 1/1000:
   sum_{a,b} |c_ab/(2E) - w_ab/W| with c_ab = number of edge ends whose own excess is a and whose partner's is b *)
Abs(x, y) == IF x > y THEN x - y ELSE y - x
Dist1000(nt, g, tp) ==
    LET es == {e \in DOMAIN g : g[e].top = tp}
        E == Cardinality(es)
        tgt == nt.target[tp]
        W == LET RECURSIVE sm(_)
                 sm(R) == IF R = {} THEN 0 ELSE LET k == CHOOSE y \in R : TRUE IN tgt[k] + sm(R \ {k})
             IN sm(DOMAIN tgt)
        ends == {<<Min2(e), Other(e, Min2(e))>> : e \in es} \cup {<<Other(e, Min2(e)), Min2(e)>> : e \in es}
        endKey == TLCEval([p \in ends |-> Key(nt, p[1], p[2], tp)])        \* computed once per end
        ks == DOMAIN tgt \cup {endKey[p] : p \in ends}
        c(k) == Cardinality({p \in ends : endKey[p] = k})
        RECURSIVE tot(_)
        tot(R) == IF R = {} THEN 0 ELSE LET k == CHOOSE y \in R : TRUE IN Abs(c(k) * W, TW(nt, tp, k) * 2 * E) + tot(R \ {k})
    IN IF E = 0 \/ W = 0 THEN 0 ELSE (tot(ks) * 1000) \div (2 * E * W)
DistAll(nt, g) == LET RECURSIVE sm(_)
                      sm(i) == IF i > Len(nt.tops) THEN 0 ELSE Dist1000(nt, g, nt.tops[i]) + sm(i + 1)
                  IN sm(1)

Judge(t) ==
    LET nt == NetOf(t)
        g0 == nt.g
        out == GOf(t.gout)
        shape0 == TLCEval([m \in MotifIds(g0) |-> ShapeOf(g0, m)])
        deg0 == TLCEval([x \in nt.V \X AllTops(g0) |-> Deg(g0, x[1], x[2])])
        io == Struct(nt, g0, shape0, deg0, out)
             \cup (IF t.g0_after # t.g0 \/ ~t.input_annotations_same THEN {"input_network_modified"} ELSE {})
             \cup (IF SetOf(t.vout) # nt.V THEN {"vertex_set_changed"} ELSE {})
             \cup (IF ~t.output_annotations_same THEN {"vertex_annotations_changed"} ELSE {})
             \cup (IF t.gout_again # t.gout THEN {"returned_graph_changed_by_a_later_rewire"} ELSE {})
        forbiddenIO == {e \in DOMAIN out \ DOMAIN g0 : ~Allowed(nt, out, e)}
        S == t.steps
        \* graph in force at step i = last snapshot at or before i
        RECURSIVE graphs(_, _, _)
        graphs(i, cur, acc) == IF i > Len(S) THEN acc
                               ELSE LET gi == IF S[i].has_g THEN GOf(S[i].g) ELSE cur IN graphs(i + 1, gi, Append(acc, gi))
        gs == graphs(1, g0, <<>>)
        after(i) == IF i < Len(S) THEN gs[i + 1] ELSE out
        accepted == {i \in DOMAIN S : S[i].result}
        cls(i) == LET g == gs[i]  st == S[i]  U1 == {st.e0s[k][2] : k \in DOMAIN st.e0s}  V1 == {st.e1s[k][2] : k \in DOMAIN st.e1s} IN
                  IF after(i) = ApplyF(g, st.u0, st.v0, U1, V1, FALSE) THEN "repaired"
                  ELSE IF after(i) = ApplyF(g, st.u0, st.v0, U1, V1, TRUE) THEN "pinned_ids" ELSE "other"
        classes == [i \in accepted |-> cls(i)]
        stepStruct == UNION {Struct(nt, g0, shape0, deg0, after(i)) : i \in accepted}
        forbiddenStep == {i \in accepted : \E e \in DOMAIN after(i) \ DOMAIN gs[i] : ~Allowed(nt, after(i), e)}
        metro == {i \in DOMAIN S : LET x == Expected(nt, gs[i], S[i]) IN x.decided /\ x.accept # S[i].result}
        c11 == io \cup (IF t.steps_known THEN stepStruct ELSE {})
        c12 == (IF forbiddenIO # {} THEN {"forbidden_pairing_in_output"} ELSE {})
               \cup (IF t.steps_known /\ forbiddenStep # {} THEN {"forbidden_pairing_created_by_a_swap"} ELSE {})
               \cup (IF t.distance /\ ~(DistAll(nt, out) + Len(nt.tops) < DistAll(nt, g0)) THEN {"distance_to_target_not_smaller"} ELSE {})
        \* a call stopped by the watchdog returned nothing: what it did to its input and every swap it had applied are still judged
        inputTouched == IF t.g0_after # t.g0 \/ ~t.input_annotations_same THEN {"input_network_modified"} ELSE {}
        partial == IF Which = "C11" THEN inputTouched \cup (IF t.steps_known THEN stepStruct ELSE {})
                   ELSE (IF t.steps_known /\ forbiddenStep # {} THEN {"forbidden_pairing_created_by_a_swap"} ELSE {})
                        \* a distance run (full-support target) that cannot finish within the watchdog has not approached the target either
                        \cup (IF t.distance /\ ~(DistAll(nt, out) + Len(nt.tops) < DistAll(nt, g0)) THEN {"distance_to_target_not_smaller"} ELSE {})
        failed == IF t.timeout THEN partial ELSE IF t.raised # "" THEN {"raised"} ELSE IF Which = "C11" THEN c11 ELSE c12
        pinnedOnly == /\ t.steps_known /\ failed # {} /\ failed \subseteq {"motif_shape_changed"}
                      /\ \A i \in accepted : classes[i] \in {"repaired", "pinned_ids"}
                      /\ \E i \in accepted : classes[i] = "pinned_ids"
        drift == IF ~t.steps_known \/ t.raised # "" \/ t.timeout THEN {}
                 ELSE (IF \E i \in accepted : classes[i] = "other" THEN {"swap_is_not_the_corner_exchange_of_the_model"} ELSE {})
                      \cup (IF metro # {} THEN {"metropolis_decision_differs_from_model"} ELSE {})
    IN [failed |-> failed, pinned_only |-> pinnedOnly, drift |-> drift, metro_mismatches |-> Cardinality(metro),
        accepted |-> Cardinality(accepted),
        pinned_steps |-> Cardinality({i \in accepted : classes[i] = "pinned_ids"}),
        decided_calls |-> Cardinality({i \in DOMAIN S : Expected(nt, gs[i], S[i]).decided})]

TInit == tid = 0 /\ net = <<>> /\ G = <<>> /\ swaps = 0
TNext == /\ tid < Len(Traces) /\ tid' = tid + 1
         /\ LET j == Judge(Traces[tid']) IN
            PrintT("VERDICT " \o ToJson([tid |-> tid',
                     v |-> IF j.failed # {} THEN "violation:" \o (CHOOSE c \in j.failed : TRUE)
                           ELSE IF j.drift # {} THEN "drift:" \o (CHOOSE c \in j.drift : TRUE) ELSE "ok",
                     failed |-> j.failed, pinned_only |-> j.pinned_only, drift |-> j.drift, metro_mismatches |-> j.metro_mismatches,
                     accepted |-> j.accepted, pinned_steps |-> j.pinned_steps, decided_calls |-> j.decided_calls]))
         /\ UNCHANGED vars
TSpec == TInit /\ [][TNext]_<<vars, tid>>
=============================================================================
