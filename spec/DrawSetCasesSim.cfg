SPECIFICATION CSpec
CONSTANT U = {1, 2, 3, 4, 5, 6, 7, 8}
CONSTRAINT Bound
INVARIANT Emit
INVARIANT C20_Representation
INVARIANT C20_RefinesSet
CHECK_DEADLOCK FALSE
