SPECIFICATION CSpec
CONSTANT MaxN = 3
CONSTANT MaxRows = 3
CONSTANT Tops = {"a", "b"}
CONSTANT Mids = {0, 1}
CONSTANT PinnedNodesFromEdges = FALSE
CHECK_DEADLOCK FALSE
