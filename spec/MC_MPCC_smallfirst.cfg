SPECIFICATION Spec
CONSTANT MaxV = 4
CONSTANT Limits = {0, 2, 3, 4}
CONSTANT MaxCovers = 1
CONSTANT SmallFirst = TRUE
INVARIANT C10_LabelIsWholeClique
INVARIANT C10_EveryEdgeOneLabel
INVARIANT C10_GreedyMaximal
INVARIANT C10_ClaimedIsCover
CHECK_DEADLOCK FALSE
