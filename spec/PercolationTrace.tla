-------------------------- MODULE PercolationTrace --------------------------
(* JUDGE for C15, C16, C18.
   poly    : the polynomial the real equation code returned when called with formal indeterminates
             (phi = p, u_v distinct symbols), as integer coefficients keyed (exponent of p, set C of u's)
   cycle   : chordless_cycle_equation(n, u, p) as coefficients keyed (exponent of p, exponent of u)
   count   : Q(n,k) / QQ(n,k) against brute-force Conn(n,k);  countmod: Q(n,k) mod five primes against the
             table built with the component-of-vertex-1 recursion in modular arithmetic
   ncg     : number_of_connected_graphs against NCG
   perc    : every leaf of bond_percolate's RNG tree on the aligned grid                                  *)
EXTENDS Percolation, Json, IOUtils, SequencesExt
Traces == JsonDeserialize(IOEnv.TRACE_FILE)
VARIABLE tid
SetOf(s) == {s[i] : i \in DOMAIN s}
EdgeSet(es) == {{es[i][1], es[i][2]} : i \in DOMAIN es}
SumSeq(s) == FoldSeq(LAMBDA x, acc : x + acc, 0, s)

FailedPoly(t) ==
    IF t.raised # "" THEN {"raised"} ELSE
    IF t.malformed THEN {"result_is_not_a_multilinear_polynomial_with_integer_coefficients"} ELSE
    LET got == {<<t.terms[i].a, SetOf(t.terms[i].C) \cup {t.root}, t.terms[i].c>> : i \in DOMAIN t.terms}
        ct == CoefTable(EdgeSet(t.E), t.root)
        Z == SetOf(t.zero_u)   O == SetOf(t.one_u)          \* vertices whose u was the number 0 / the number 1
        T2 == SetOf(t.two_u)   H == SetOf(t.half_u)         \* ... the number 2 / the number 1/2 (result scaled by 2^|H|)
        NG == SetOf(t.neg_u)                                \* ... the number -1
        fixed == O \cup T2 \cup H \cup NG
        rows == {r \in ct : r[2] \cap Z = {}}
        keys == {<<r[1], r[2] \ fixed>> : r \in rows}
        wt(r) == r[3] * Pow(2, Cardinality(r[2] \cap T2)) * Pow(2, Cardinality(H) - Cardinality(r[2] \cap H))
                      * (IF Cardinality(r[2] \cap NG) % 2 = 1 THEN -1 ELSE 1)
        exp == IF Z = {} /\ fixed = {} THEN ct
               ELSE {x \in {<<k[1], k[2], ISumSet({r \in rows : r[1] = k[1] /\ r[2] \ fixed = k[2]}, wt)>> : k \in keys} : x[3] # 0}
    IN IF got = exp THEN {} ELSE
       IF {<<r[1], r[2]>> : r \in got} # {<<r[1], r[2]>> : r \in exp} THEN {"polynomial_has_wrong_monomials"} ELSE {"polynomial_has_wrong_coefficients"}

FailedCycle(t) ==
    IF t.raised # "" THEN {"raised"} ELSE
    IF t.malformed THEN {"result_is_not_a_polynomial_with_integer_coefficients"} ELSE
    LET n == t.n
        E == {{i, (i % n) + 1} : i \in 1..n}
        ct == CoefTable(E, 1)
        keys == {<<r[1], Cardinality(r[2]) - 1>> : r \in ct}
        exp == {x \in {<<k[1], k[2], ISumSet({r \in ct : r[1] = k[1] /\ Cardinality(r[2]) - 1 = k[2]}, LAMBDA r : r[3])>> : k \in keys} : x[3] # 0}
        got == {<<t.terms[i].a, t.terms[i].b, t.terms[i].c>> : i \in DOMAIN t.terms}
    IN IF got = exp THEN {} ELSE {"cycle_polynomial_differs_from_exact_expectation"}

FailedCount(t) ==
    LET c == Conn(t.n, t.k) IN
    (IF t.q_raised # "" \/ ~t.q_small \/ t.q # c THEN {"recursive_count_wrong"} ELSE {})
    \cup (IF t.have_qq /\ (t.qq_raised # "" \/ t.qq # c) THEN {"brute_force_count_wrong"} ELSE {})

(* ---- modular table of Conn(n, k) for n <= MaxN via Binom(s,k) = sum_{m,j} Binom(n-1,m-1) Conn(m,j) Binom(s(n-m), k-j) ---- *)
Primes == <<46337, 46327, 46309, 46307, 46301>>
MaxN == 12
PairsN(n) == (n * (n - 1)) \div 2
RECURSIVE PascalRows(_, _, _)
PascalRows(p, r, acc) ==      \* acc[r] = row r-1 of Pascal's triangle mod p, as a sequence indexed k+1
    IF r > PairsN(MaxN) THEN acc
    ELSE LET prev == acc[r]
             row == [k \in 1..(r + 1) |-> ((IF k > 1 THEN prev[k - 1] ELSE 0) + (IF k <= r THEN prev[k] ELSE 0)) % p]
         IN PascalRows(p, r + 1, Append(acc, row))
Pascal == [i \in 1..Len(Primes) |-> PascalRows(Primes[i], 1, <<<<1>>>>)]
B(i, n, k) == IF k < 0 \/ k > n THEN 0 ELSE Pascal[i][n + 1][k + 1]
RECURSIVE ConnRows(_, _, _)
ConnRows(i, n, acc) ==       \* acc[m] = row of Conn(m, .) mod p_i for m < n, indexed j+1
    IF n > MaxN THEN acc
    ELSE LET p == Primes[i]
             s == PairsN(n)
             sub(k) == SumSeq([m \in 1..(n - 1) |->
                           SumSeq([j \in 0..PairsN(m) |->
                               IF k - j < 0 \/ k - j > PairsN(n - m) THEN 0
                               ELSE (((B(i, n - 1, m - 1) * acc[m][j + 1]) % p) * B(i, PairsN(n - m), k - j)) % p]) % p]) % p
             row == [kk \in 1..(s + 1) |-> (B(i, s, kk - 1) + p - sub(kk - 1)) % p]
         IN ConnRows(i, n + 1, Append(acc, row))
ConnMod == [i \in 1..Len(Primes) |-> ConnRows(i, 1, <<>>)]
FailedCountMod(t) ==
    IF t.q_raised # "" THEN {"raised"} ELSE
    IF \E i \in 1..Len(Primes) : t.residues[i] # ConnMod[i][t.n][t.k + 1] THEN {"recursive_count_wrong_modulo_a_prime"} ELSE {}
(* the modular table itself is validated against brute force where brute force is feasible *)
ASSUME \A n \in 1..5 : \A k \in 0..PairsN(n) : \A i \in 1..Len(Primes) : ConnMod[i][n][k + 1] = Conn(n, k) % Primes[i]

FailedNcg(t) ==
    IF t.raised # "" THEN {"raised"} ELSE
    IF t.got # NCG(EdgeSet(t.E), SetOf(t.A), t.k) THEN {"connected_subgraph_count_wrong"} ELSE {}

(* ---- C18 ---- *)
LCC(V, S) == LET sizes == {Cardinality(Reach(S, {v})) : v \in V} IN CHOOSE x \in sizes : \A y \in sizes : y <= x
FailedPerc(t) ==
    LET V == SetOf(t.V)
        es == t.E
        E == EdgeSet(es)
        N == Cardinality(V)
        a == t.a  b == t.b  m == Len(es)
        L == t.leaves
        kept(i) == {{es[k][1], es[k][2]} : k \in {x \in 1..m : L[i].draws[x] < a}}
        expCount(r) == ISumSet({S \in SUBSET E : LCC(V, S) = r}, LAMBDA S : Pow(a, Cardinality(S)) * Pow(b - a, m - Cardinality(S)))
        gotCount(r) == LET S == {i \in DOMAIN t.dist : t.dist[i][1] = r} IN          \* P(result = r/N) * b^m from exact leaf weights
                       IF S = {} THEN 0 ELSE t.dist[CHOOSE i \in S : TRUE][2]
    IN
    IF t.raised # "" THEN {"raised"} ELSE
    {c \in {"input_graph_modified", "not_a_multiple_of_1_over_N", "outside_1_over_N_to_1", "phi_one_not_the_largest_component",
            "phi_zero_not_1_over_N", "distribution_is_not_independent_retention_with_probability_phi"} :
       CASE c = "input_graph_modified" -> ~t.input_same
         [] c = "not_a_multiple_of_1_over_N" -> \E i \in DOMAIN L : ~L[i].ok
         [] c = "outside_1_over_N_to_1" -> \E i \in DOMAIN L : L[i].n < 1 \/ L[i].n > N
         [] c = "phi_one_not_the_largest_component" -> a = b /\ \E i \in DOMAIN L : L[i].n # LCC(V, E)
         [] c = "phi_zero_not_1_over_N" -> a = 0 /\ \E i \in DOMAIN L : L[i].n # 1
         [] c = "distribution_is_not_independent_retention_with_probability_phi" ->
               t.exhaustive /\ (t.dist_offgrid \/ \E r \in 1..N : gotCount(r) # expCount(r))}
DriftPerc(t) == IF t.raised = "" /\ t.draws_known /\ \E i \in DOMAIN t.leaves :
                      t.leaves[i].n # LCC(SetOf(t.V), {{t.E[k][1], t.E[k][2]} : k \in {x \in 1..Len(t.E) : t.leaves[i].draws[x] < t.a}})
                THEN {"edges_not_visited_in_G_edges_order"} ELSE {}

Failed(t) == CASE t.kind = "poly" -> FailedPoly(t)
               [] t.kind = "cycle" -> FailedCycle(t)
               [] t.kind = "count" -> FailedCount(t)
               [] t.kind = "countmod" -> FailedCountMod(t)
               [] t.kind = "ncg" -> FailedNcg(t)
               [] t.kind = "perc" -> FailedPerc(t)
               [] OTHER -> {"unknown_kind"}
TInit == tid = 0 /\ mo = <<>> /\ todo = {} /\ open = {} /\ decided = {} /\ edits = 0 /\ caches = <<>> /\ hist = <<>> /\ phase = "judge"
TNext == /\ tid < Len(Traces) /\ tid' = tid + 1
         /\ LET f == Failed(Traces[tid'])
                d == IF Traces[tid'].kind = "perc" THEN DriftPerc(Traces[tid']) ELSE {}
            IN PrintT("VERDICT " \o ToJson([tid |-> tid', v |-> IF f # {} THEN "violation:" \o (CHOOSE c \in f : TRUE)
                                                               ELSE IF d # {} THEN "drift:" \o (CHOOSE c \in d : TRUE) ELSE "ok",
                                           failed |-> f, drift |-> d]))
         /\ UNCHANGED vars
TSpec == TInit /\ [][TNext]_<<vars, tid>>
=============================================================================
