---------------------------- MODULE LoadersTrace ----------------------------
(* JUDGE for C06, C07, C08.  One record = one loader built from a case, its .jdd read
   back after construction, after a second create_jdd(), and through the
   type-dispatching entry point.  Every real value x in a table is logged as
   [key, n, ok, D]: n = round(x*D), ok = |x*D - n| < 1e-6, D the denominator the
   specification dictates for that key (recomputed and checked here).          *)
EXTENDS Naturals, Sequences, FiniteSets, TLC, Json, IOUtils, SequencesExt
Traces == JsonDeserialize(IOEnv.TRACE_FILE)
VARIABLE tid

RECURSIVE Pow(_, _)
Pow(b, e) == IF e = 0 THEN 1 ELSE b * Pow(b, e - 1)
SumSeq(s) == FoldSeq(LAMBDA x, acc : x + acc, 0, s)
ProdSeq(s) == FoldSeq(LAMBDA x, acc : x * acc, 1, s)
SetOf(s) == {s[i] : i \in DOMAIN s}
Count(s, x) == Cardinality({i \in DOMAIN s : s[i] = x})
Tab(tb) == {<<tb[i].key, tb[i].n>> : i \in DOMAIN tb}          \* a recorded table as a set of (key, numerator)
Keys(tb) == {tb[i].key : i \in DOMAIN tb}
AllOk(tb) == \A i \in DOMAIN tb : tb[i].ok
NoDupKeys(tb) == Cardinality(Keys(tb)) = Len(tb)
NonNeg(tb) == \A i \in DOMAIN tb : tb[i].nonneg
Lookup(pairs, x) == LET S == {i \in DOMAIN pairs : pairs[i].k = x} IN
                    IF S = {} THEN 0 ELSE pairs[CHOOSE i \in S : TRUE].w

(* history clauses shared by all deterministic loaders (C06: entry point = direct construction;
   the entry point's second create_jdd must not change the table) *)
History(t) ==
    {c \in {"second_create_changes_table", "entry_point_differs", "entry_point_raised", "second_create_raised",
            "table_of_an_earlier_loader_changed", "table_changed_by_drawing_a_sequence"} :
       CASE c = "second_create_changes_table" -> t.have_second /\ Tab(t.second) # Tab(t.first)
         [] c = "entry_point_differs" -> t.have_entry /\ Tab(t.entry) # Tab(t.first)
         [] c = "entry_point_raised" -> t.entry_raised # ""
         [] c = "second_create_raised" -> t.second_raised # ""
         [] c = "table_changed_by_drawing_a_sequence" -> t.have_after_sampling /\ Tab(t.after_sampling) # Tab(t.first)
         [] c = "table_of_an_earlier_loader_changed" -> t.earlier_changed}      \* loaders are independent objects

Basic(t) == IF ~AllOk(t.first) THEN {"value_not_a_multiple_of_dictated_denominator"}
            ELSE IF ~NoDupKeys(t.first) THEN {"duplicate_keys"}
            ELSE IF ~NonNeg(t.first) THEN {"negative_value"} ELSE {}

(* ---- C06 ---- *)
Manual(t) == IF Tab(t.first) # {<<t.d[i].key, t.d[i].w>> : i \in DOMAIN t.d} THEN {"manual_law"} ELSE {}
Empirical(t) ==
    IF \E i \in DOMAIN t.first : t.first[i].D # Len(t.obs) THEN {"bad_denominator"} ELSE
    IF Tab(t.first) # {<<x, Count(t.obs, x)>> : x \in SetOf(t.obs)} THEN {"empirical_law"} ELSE {}
Box(bounds) == LET RECURSIVE go(_)
                   go(i) == IF i > Len(bounds) THEN {<<>>}
                            ELSE {<<x>> \o r : x \in bounds[i][1]..bounds[i][2], r \in go(i + 1)}
               IN go(1)
Function(t) ==
    IF Keys(t.first) # Box(t.bounds) THEN {"function_support_not_whole_box"} ELSE
    IF Tab(t.first) # {<<t.cells[i].key, t.cells[i].w>> : i \in DOMAIN t.cells} THEN {"function_law"} ELSE {}
(* marginal, direct mode: support = product of non-empty contiguous per-topology ranges inside the bounds *)
Marginal(t) ==
    LET T == Len(t.bounds)
        Dim(i) == {key[i] : key \in Keys(t.first)}
        Contig(S) == S # {} /\ \A x \in S : \A y \in S : \A z \in x..y : z \in S
        Prod(key) == ProdSeq([i \in 1..T |-> Lookup(t.F[i], key[i])])
        Z == SumSeq([i \in DOMAIN t.first |-> Prod(t.first[i].key)])
    IN IF \E key \in Keys(t.first) : Len(key) # T THEN {"marginal_key_arity"} ELSE
       IF \E i \in 1..T : ~Contig(Dim(i)) \/ \E x \in Dim(i) : x < t.bounds[i][1] \/ x > t.bounds[i][2]
         THEN {"marginal_support_not_contiguous_ranges_within_bounds"} ELSE
       IF Cardinality(Keys(t.first)) # ProdSeq([i \in 1..T |-> Cardinality(Dim(i))]) THEN {"marginal_support_not_a_product"} ELSE
       IF \E i \in DOMAIN t.first : t.first[i].D # Z THEN {"bad_denominator"} ELSE
       IF \E i \in DOMAIN t.first : t.first[i].n # Prod(t.first[i].key) THEN {"marginal_law"} ELSE {}
(* marginal, sampling mode, one sample, whole RNG tree on the aligned grid: #leaves(key) = prod_i F_i[k_i] *)
MarginalSample1(t) ==
    LET T == Len(t.bounds)
        Prod(key) == ProdSeq([i \in 1..T |-> Lookup(t.F[i], key[i])])
        Cnt(key) == SumSeq([i \in DOMAIN t.tally |-> IF t.tally[i].key = key THEN t.tally[i].count ELSE 0])
    IN IF t.not_single THEN {"table_of_one_sample_is_not_a_single_tuple"} ELSE
       IF ~t.decided THEN {} ELSE
       IF \E i \in DOMAIN t.tally : t.tally[i].key \notin Box(t.bounds) THEN {"sample_outside_closed_ranges"} ELSE
       IF \E key \in Box(t.bounds) : Cnt(key) # Prod(key) THEN {"one_sample_law_not_product_of_marginals"} ELSE {}
(* marginal, sampling mode, n samples: the table is the relative frequency of the drawn tuples *)
MarginalFreq(t) ==
    IF ~t.draws_known THEN {} ELSE
    IF \E i \in DOMAIN t.first : t.first[i].D # Len(t.draws) THEN {"bad_denominator"} ELSE
    IF Tab(t.first) # {<<x, Count(t.draws, x)>> : x \in SetOf(t.draws)} THEN {"sampling_table_not_relative_frequency"} ELSE {}

(* ---- C07 ---- *)
Total(s) == SumSeq([i \in DOMAIN s |-> i * s[i]])
Splits(kk, T) == {s \in [1..T -> 0..kk] : Total(s) = kk}
Wt(a, s) == ProdSeq([i \in DOMAIN s |-> Pow(a[i], i * s[i])])
SumW(a, kk) == LET S == Splits(kk, Len(a)) IN
               LET RECURSIVE go(_)
                   go(R) == IF R = {} THEN 0 ELSE LET x == CHOOSE y \in R : TRUE IN Wt(a, x) + go(R \ {x})
               IN go(S)
First(kk, T) == [i \in 1..T |-> IF i = 1 THEN kk ELSE 0]
(* the admissible splits of kk, built topology by topology (the last topology T spends T edges per member) *)
RECURSIVE SplitsFast(_, _)
SplitsFast(kk, T) == IF T = 1 THEN {<<kk>>}
                     ELSE UNION {{Append(r, i) : r \in SplitsFast(kk - i * T, T - 1)} : i \in 0..(kk \div T)}
SplitLike(t) ==
    LET T == Len(t.a)
        ks == t.lo..(t.hi - 1)
        \* split sets and weight sums per degree, built once per trace (degrees may be in the hundreds)
        SplitTab == TLCEval([kk \in ks |-> SplitsFast(kk, T)])
        SumWTab == TLCEval([kk \in ks |-> LET S == SplitTab[kk] IN
                                            LET RECURSIVE go(_)
                                                go(R) == IF R = {} THEN 0 ELSE LET x == CHOOSE y \in R : TRUE IN Wt(t.a, x) + go(R \ {x})
                                            IN go(S)])
        f(kk) == t.f[kk - t.lo + 1]
        SumF == SumSeq(t.f)
        split(kk) == ~t.delta \/ kk = t.target
        Support == UNION {IF split(kk) THEN SplitTab[kk] ELSE {First(kk, T)} : kk \in ks}
        Den(s) == IF split(Total(s)) THEN SumF * SumWTab[Total(s)] ELSE SumF
        Num(s) == IF split(Total(s)) THEN f(Total(s)) * Wt(t.a, s) ELSE f(Total(s))
        MassK(kk) == SumSeq([i \in DOMAIN t.first |-> IF Total(t.first[i].key) = kk THEN t.first[i].n ELSE 0])
        steps == t.steps
    IN
    IF \E key \in Keys(t.first) : Len(key) # T THEN {"key_arity"} ELSE
    {c \in {"lost_degrees", "extra_keys", "bad_denominator", "mass_per_k", "within_k", "delta_shape", "sums_to_one",
            "resolved_degree_discarded_later"} :
       CASE c = "lost_degrees" -> \E kk \in ks : ~\E s \in Keys(t.first) : Total(s) = kk
         [] c = "extra_keys" -> \E s \in Keys(t.first) : s \notin Support
         [] c = "delta_shape" -> t.delta /\ \E s \in Keys(t.first) : Total(s) # t.target /\ s # First(Total(s), T)
         [] c = "bad_denominator" -> \E i \in DOMAIN t.first : t.first[i].key \in Support /\ t.first[i].D # Den(t.first[i].key)
         [] c = "within_k" -> Keys(t.first) # Support \/ \E i \in DOMAIN t.first : t.first[i].key \in Support /\ t.first[i].n # Num(t.first[i].key)
            \* mass of all joint degrees using kk edges is proportional to f(kk) (one normaliser): sum_s n_s/Den = f(kk)/SumF
         [] c = "mass_per_k" -> \E kk \in ks : (\E s \in Keys(t.first) : Total(s) = kk) /\
                                   MassK(kk) # f(kk) * (IF split(kk) THEN SumWTab[kk] ELSE 1)
         [] c = "sums_to_one" -> ~t.sum_ok
         [] c = "resolved_degree_discarded_later" ->
               \E i \in DOMAIN steps : i > 1 /\ ~(SetOf(steps[i - 1]) \subseteq SetOf(steps[i]))}

(* ---- C08 ---- *)
Cover(t) ==
    LET cv == t.cover
        verts == UNION {SetOf(cv[i]) : i \in DOMAIN cv}
        sizes == {Len(cv[i]) : i \in DOMAIN cv}
        sorted == SetToSortSeq(sizes, <)
        JD(v) == [j \in DOMAIN sorted |-> Cardinality({i \in DOMAIN cv : v \in SetOf(cv[i]) /\ Len(cv[i]) = sorted[j]})]
        obs == {JD(v) : v \in verts}
    IN IF t.motif_sizes # sorted THEN {"motif_sizes_not_the_occurring_sizes_ascending"} ELSE
       IF \E key \in Keys(t.first) : Len(key) # Len(sorted) THEN {"one_column_per_occurring_size"} ELSE
       IF \E i \in DOMAIN t.first : t.first[i].D # Cardinality(verts) THEN {"bad_denominator"} ELSE
       IF Tab(t.first) # {<<x, Cardinality({v \in verts : JD(v) = x})>> : x \in obs} THEN {"cover_law"} ELSE
       IF t.compose_raised # "" THEN {"sample_and_generate_raised"} ELSE
       IF \E j \in DOMAIN sorted : t.compose_counts[j] * sorted[j] # t.compose_colsum[j] THEN {"profile_not_reproduced"} ELSE {}

Failed(t) ==
    IF t.raised # "" THEN {"raised"} ELSE
    LET b == Basic(t) IN IF b # {} THEN b ELSE
    LET law == CASE t.kind = "manual" -> Manual(t)
                 [] t.kind = "empirical" -> Empirical(t)
                 [] t.kind = "function" -> Function(t)
                 [] t.kind = "marginal" -> Marginal(t)
                 [] t.kind = "marginal_sample1" -> MarginalSample1(t)
                 [] t.kind = "marginal_freq" -> MarginalFreq(t)
                 [] t.kind \in {"split", "delta"} -> SplitLike(t)
                 [] t.kind = "cover" -> Cover(t)
                 [] OTHER -> {"unknown_kind"}
    IN law \cup (IF t.kind \in {"marginal_sample1", "marginal_freq"} THEN {} ELSE History(t))

Verdict(t) == LET f == Failed(t) IN IF f = {} THEN "ok" ELSE "violation:" \o (CHOOSE c \in f : TRUE)
Init == tid = 0
Next == /\ tid < Len(Traces) /\ tid' = tid + 1
        /\ PrintT("VERDICT " \o ToJson([tid |-> tid', v |-> Verdict(Traces[tid']), failed |-> Failed(Traces[tid'])]))
Spec == Init /\ [][Next]_tid
=============================================================================
