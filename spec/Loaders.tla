------------------------------- MODULE Loaders -------------------------------
(* gcmpy/joint_degree/joint_degree_loaders (C06, C07, C08).
   Laws are definitions over integer weights (a real p is always w/D for a
   denominator the case dictates); three small state machines model the parts
   of the code where the listed defects live:
     "split"  the k-loop of the split-degree / delta loaders (resolve_degree per k)
     "cover"  the removal of all-zero size columns in the cover loader
     "life"   the lifecycle  __init__ -> create_jdd -> create_jdd (entry point calls it again)
   PinnedReset / PinnedAscending / PinnedAccumulate select the pinned mechanisms. *)
EXTENDS Naturals, Sequences, FiniteSets, TLC

CONSTANTS MaxT, MaxA, MaxF, MaxK, PinnedReset, PinnedAscending, AccumulatingCreate

RECURSIVE SumSeq(_), Pow(_, _)
SumSeq(s) == IF s = <<>> THEN 0 ELSE Head(s) + SumSeq(Tail(s))
Pow(b, e) == IF e = 0 THEN 1 ELSE b * Pow(b, e - 1)
SumOver(S, f(_)) == LET RECURSIVE go(_)
                        go(R) == IF R = {} THEN 0 ELSE LET x == CHOOSE y \in R : TRUE IN f(x) + go(R \ {x})
                    IN go(S)

(* ---------------------------------- C07 laws ---------------------------------- *)
Total(s) == SumSeq([i \in DOMAIN s |-> i * s[i]])           \* member of topology i spends i edges
Splits(k, T) == {s \in [1..T -> 0..k] : Total(s) = k}
W(a, s) == LET RECURSIVE prod(_)
               prod(i) == IF i > Len(s) THEN 1 ELSE Pow(a[i], i * s[i]) * prod(i + 1)
           IN prod(1)
SumW(a, k) == SumOver(Splits(k, Len(a)), LAMBDA s : W(a, s))
(* mass of split s of degree k, as a pair <<numerator, denominator>> before the global normalisation *)
SplitMass(a, f, k, s) == <<f[k] * W(a, s), SumW(a, k)>>

(* ------------------------------ "split" machine ------------------------------ *)
VARIABLES machine, par, jdd, k, cols, todel, built, saved
vars == <<machine, par, jdd, k, cols, todel, built, saved>>

SplitParams ==
    [a : UNION {{x \in [1..T -> 0..MaxA] : x[1] >= 1} : T \in 1..MaxT}, lo : 1..2, hi : 2..MaxK,     \* a probability may be 0 (the first one is positive)
     target : 0..(MaxK + 1),
     delta : BOOLEAN, f : [1..MaxK -> 0..MaxF]]
InitSplit == /\ machine = "split"
             /\ par \in {p \in SplitParams : p.lo < p.hi /\ \E kk \in p.lo..(p.hi - 1) : p.f[kk] > 0}
             /\ jdd = <<>> /\ k = par.lo /\ cols = <<>> /\ todel = <<>> /\ built = 0 /\ saved = <<>>

Merge(old, new) == [s \in DOMAIN old \cup DOMAIN new |-> IF s \in DOMAIN new THEN new[s] ELSE old[s]]
First(kk, T) == [i \in 1..T |-> IF i = 1 THEN kk ELSE 0]
ResolveDegree ==
    /\ machine = "split" /\ k < par.hi
    /\ LET T == Len(par.a)
           new == IF par.delta /\ k # par.target
                  THEN [s \in {First(k, T)} |-> <<par.f[k], 1>>]
                  ELSE [s \in Splits(k, T) |-> SplitMass(par.a, par.f, k, s)]
           \* pinned: resolve_degree re-creates the table (the delta loader only calls it at the target)
           resets == PinnedReset /\ ~(par.delta /\ k # par.target)
       IN jdd' = IF resets THEN new ELSE Merge(jdd, new)
    /\ k' = k + 1
    /\ UNCHANGED <<machine, par, cols, todel, built, saved>>

(* every resolved degree keeps its mass: sum over the splits of kk of num/den = f[kk] *)
MassOf(kk) == LET S == {s \in DOMAIN jdd : Total(s) = kk} IN
              IF S = {} THEN <<0, 1>>
              ELSE LET d == jdd[CHOOSE s \in S : TRUE][2] IN <<SumOver(S, LAMBDA s : jdd[s][1]), d>>
C07_Accumulates == [][machine = "split" => \A s \in DOMAIN jdd : s \in DOMAIN jdd' /\ jdd'[s] = jdd[s]]_vars
C07_MassPerK == (machine = "split" /\ k = par.hi) =>
                   \A kk \in par.lo..(par.hi - 1) : MassOf(kk)[1] = par.f[kk] * MassOf(kk)[2]
C07_WithinK == machine = "split" =>
                   \A s, t \in DOMAIN jdd : (Total(s) = Total(t) /\ ~(par.delta /\ Total(s) # par.target)) =>
                        jdd[s][1] * W(par.a, t) = jdd[t][1] * W(par.a, s)
C07_DeltaShape == (machine = "split" /\ par.delta /\ k = par.hi) =>
                   \A s \in DOMAIN jdd : Total(s) # par.target => s = First(Total(s), Len(par.a))
C07_Support == (machine = "split" /\ k = par.hi) =>
                   DOMAIN jdd = UNION {IF par.delta /\ kk # par.target THEN {First(kk, Len(par.a))}
                                       ELSE Splits(kk, Len(par.a)) : kk \in par.lo..(par.hi - 1)}

(* ------------------------------- "cover" machine ------------------------------- *)
(* cols: per-vertex counters indexed by clique size; todel: indexes of all-zero columns still to delete *)
CoverInputs == {c \in SUBSET {2, 3, 4, 5} : c # {}}          \* which sizes occur (counter content is irrelevant to the loop)
InitCover == /\ machine = "cover" /\ \E occ \in CoverInputs :
                   LET L == CHOOSE m \in occ : \A x \in occ : x <= m IN
                   /\ cols = [i \in 1..L |-> IF i \in occ THEN i ELSE 0]   \* column i tagged by its size, 0 = all-zero column
                   /\ todel = IF PinnedAscending
                              THEN LET RECURSIVE asc(_)
                                       asc(i) == IF i > L THEN <<>> ELSE (IF i \in occ THEN <<>> ELSE <<i>>) \o asc(i + 1)
                                   IN asc(1)
                              ELSE LET RECURSIVE desc(_)
                                       desc(i) == IF i < 1 THEN <<>> ELSE (IF i \in occ THEN <<>> ELSE <<i>>) \o desc(i - 1)
                                   IN desc(L)
                   /\ par = occ
             /\ jdd = <<>> /\ k = 0 /\ built = 0 /\ saved = <<>>
DeleteColumn == /\ machine = "cover" /\ todel # <<>>
                /\ Head(todel) \in DOMAIN cols            \* otherwise the code raises IndexError
                /\ cols' = [i \in 1..(Len(cols) - 1) |-> IF i < Head(todel) THEN cols[i] ELSE cols[i + 1]]
                /\ todel' = Tail(todel)
                /\ UNCHANGED <<machine, par, jdd, k, built, saved>>
C08_ColumnsAreOccurringSizes ==
    (machine = "cover" /\ todel = <<>>) =>
        /\ \A i \in DOMAIN cols : cols[i] # 0
        /\ {cols[i] : i \in DOMAIN cols} = par
        /\ \A i, j \in DOMAIN cols : i < j => cols[i] < cols[j]
C08_DeleteNeverStuck == (machine = "cover" /\ todel # <<>>) => Head(todel) \in DOMAIN cols

(* -------------------------------- "life" machine -------------------------------- *)
(* a deterministic loader: create_jdd recomputes the same table from the inputs; the entry point
   JointDegreeDistribution.load_joint_degree calls create_jdd a second time *)
LifeTables == {t \in [{<<0>>, <<1>>, <<2>>} -> 0..2] : \E x \in DOMAIN t : t[x] > 0}
InitLife == /\ machine = "life" /\ par \in LifeTables /\ jdd = <<>> /\ built = 0 /\ saved = <<>>
            /\ k = 0 /\ cols = <<>> /\ todel = <<>>
(* crash point: the caller hands the loader a malformed input through its setter (a cover with a vertex-id typo, an
   empty list, a table without positive weight), create_jdd raises, the caller puts the previous input back and keeps
   the loader.  A rejected create_jdd changes nothing the loader reports (table, motif sizes); RejectLeaks is the named
   deviation "part of the rejected candidate stays behind" (MC_Loaders_rejectleak.cfg must violate C06_Law). *)
RejectLeaks == FALSE
Yes == TRUE
Malformed == [x \in {<<9>>} |-> 0]
TryCandidate == /\ machine = "life" /\ built > 0 /\ built < 3 /\ saved = <<>>
                /\ saved' = par /\ par' = Malformed
                /\ UNCHANGED <<machine, jdd, k, cols, todel, built>>
Restore == /\ machine = "life" /\ saved # <<>>
           /\ par' = saved /\ saved' = <<>>
           /\ UNCHANGED <<machine, jdd, k, cols, todel, built>>
CreateJdd == /\ machine = "life" /\ built < 3
             /\ jdd' = IF par = Malformed THEN (IF RejectLeaks THEN Malformed ELSE jdd)        \* raises
                       ELSE IF AccumulatingCreate /\ built > 0 THEN [x \in DOMAIN par |-> jdd[x] + par[x]] ELSE par
             /\ built' = built + 1
             /\ UNCHANGED <<machine, par, k, cols, todel, saved>>
C06_Idempotent == [][machine = "life" /\ built > 0 /\ built' > built => jdd' = jdd]_vars
C06_Law == (machine = "life" /\ built > 0 /\ saved = <<>>) => jdd = par

Init == InitSplit \/ InitCover \/ InitLife
Next == ResolveDegree \/ DeleteColumn \/ CreateJdd \/ TryCandidate \/ Restore
Spec == Init /\ [][Next]_vars
=============================================================================
