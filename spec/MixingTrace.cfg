SPECIFICATION TSpec
CONSTANT MixNets = {}
CONSTANT Dists = {}
CONSTANT NameLists = {}
CONSTANT AccumulateCounter = FALSE
CONSTANT HardCodedReference = FALSE
CONSTANT Nets = {}
CONSTANT PinnedIds = FALSE
CONSTANT NoLoopCheck = FALSE
CONSTANT MaxSwaps = 0
CHECK_DEADLOCK FALSE
