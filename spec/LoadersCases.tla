---------------------------- MODULE LoadersCases ----------------------------
(* CASES role for C07: the parameter family of the "split" machine of Loaders.tla
   (exactly the initial states the MC explores) written out for replay into the
   real split-degree / delta loaders.                                           *)
EXTENDS Loaders, Json, IOUtils, SequencesExt
Family == {p \in SplitParams : p.lo < p.hi /\ \E kk \in p.lo..(p.hi - 1) : p.f[kk] > 0}
ASSUME JsonSerialize(IOEnv.OUT_FILE, SetToSeq(Family))
CInit == machine = "cases" /\ par = 0 /\ jdd = <<>> /\ k = 0 /\ cols = <<>> /\ todel = <<>> /\ built = 0 /\ saved = <<>>
CSpec == CInit /\ [][FALSE]_vars
=============================================================================
