---------------------------- MODULE PipelineTrace ----------------------------
(* JUDGE for the composition (not a listed property; growth of the specification): one record = one run of
   sample -> GCMAlgorithmNetwork (recording clique callbacks) -> JointDegreeDistributionFromNetwork.        *)
EXTENDS Naturals, Sequences, FiniteSets, TLC, Json, IOUtils, SequencesExt
Traces == JsonDeserialize(IOEnv.TRACE_FILE)
VARIABLE tid
SetOf(s) == {s[i] : i \in DOMAIN s}
SumSeq(s) == FoldSeq(LAMBDA x, acc : x + acc, 0, s)
Count(s, x) == Cardinality({i \in DOMAIN s : s[i] = x})
PairsOfTuple(t) == {{t[x[1]], t[x[2]]} : x \in {y \in (DOMAIN t) \X (DOMAIN t) : y[1] # y[2]}}

Failed(t) ==
    LET N == Len(t.jds)
        K == Len(t.sizes)
        ml == t.motifs                                  \* [top (1-based), verts]
        clean == /\ \A i \in DOMAIN ml : Cardinality(SetOf(ml[i].verts)) = Len(ml[i].verts)
                 /\ \A i, j \in DOMAIN ml : i # j => PairsOfTuple(ml[i].verts) \cap PairsOfTuple(ml[j].verts) = {}
        edges == {{t.edges[i].a, t.edges[i].b} : i \in DOMAIN t.edges}
        topOf(p) == t.edges[CHOOSE i \in DOMAIN t.edges : {t.edges[i].a, t.edges[i].b} = p].top
        deg(v, k) == Cardinality({p \in edges : v \in p /\ topOf(p) = k})
    IN
    IF t.raised # "" THEN {"raised"} ELSE
    {c \in {"PI_AllVerticesPresent", "PI_JddOfNetwork", "PI_CleanDegrees", "PI_CleanEdgeCount", "PI_EdgesComeFromMotifs"} :
       CASE c = "PI_AllVerticesPresent" -> SetOf(t.nodes) # 0..(N - 1) \/ \E i \in DOMAIN t.nodes : t.node_jd[i] # t.jds[t.nodes[i] + 1]
         [] c = "PI_JddOfNetwork" -> \/ \E i \in DOMAIN t.hist : ~t.hist[i].ok \/ t.hist[i].D # N \/ t.hist[i].n # Count(t.jds, t.hist[i].k)
                                     \/ {t.hist[i].k : i \in DOMAIN t.hist} # SetOf(t.jds)
         [] c = "PI_CleanDegrees" -> clean /\ \E v \in 0..(N - 1) : \E k \in 1..K : deg(v, k) # (t.sizes[k] - 1) * t.jds[v + 1][k]
         [] c = "PI_CleanEdgeCount" -> clean /\ \E k \in 1..K :
                 Cardinality({p \in edges : topOf(p) = k}) # Cardinality({i \in DOMAIN ml : ml[i].top = k}) * ((t.sizes[k] * (t.sizes[k] - 1)) \div 2)
         [] c = "PI_EdgesComeFromMotifs" -> \E p \in edges : ~\E i \in DOMAIN ml : p \in PairsOfTuple(ml[i].verts)}
Init == tid = 0
Next == /\ tid < Len(Traces) /\ tid' = tid + 1
        /\ LET f == Failed(Traces[tid']) IN
           PrintT("VERDICT " \o ToJson([tid |-> tid', v |-> IF f = {} THEN "ok" ELSE "violation:" \o (CHOOSE c \in f : TRUE), failed |-> f]))
Spec == Init /\ [][Next]_tid
=============================================================================
