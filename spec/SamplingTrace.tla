---------------------------- MODULE SamplingTrace ----------------------------
(* JUDGE for C05.  kind = "run": one recorded call of sample_jds_from_jdd (the raw
   draws are captured by a wrapper on handshaking_lemma; if the wrapper could not
   attach and N <= 4 the judge quantifies over all possible raw draws).
   kind = "dist": the exact distribution of the raw draws obtained by enumerating
   the RNG tree with the aligned grid; must be prod_j w(raw_j) / W^N.            *)
EXTENDS Naturals, Sequences, FiniteSets, TLC, Json, IOUtils, SequencesExt
Traces == JsonDeserialize(IOEnv.TRACE_FILE)
VARIABLE tid
RECURSIVE ProdSeq(_), Pow(_, _)
SumSeq(s) == FoldSeq(LAMBDA x, acc : x + acc, 0, s)      \* iterative (N up to thousands)
ProdSeq(s) == IF s = <<>> THEN 1 ELSE Head(s) * ProdSeq(Tail(s))
Pow(b, e) == IF e = 0 THEN 1 ELSE b * Pow(b, e - 1)
ColSum(j, k) == SumSeq([v \in DOMAIN j |-> j[v][k]])
Need(raw, sizes, k) == (sizes[k] - (ColSum(raw, k) % sizes[k])) % sizes[k]

PosKeys(t) == {t.keys[i] : i \in {j \in DOMAIN t.keys : t.wts[j] > 0}}
Wt(t, key) == SumSeq([i \in DOMAIN t.keys |-> IF t.keys[i] = key THEN t.wts[i] ELSE 0])

ExplainedBy(t, raw) ==
    LET K == Len(t.sizes) IN
    /\ \A v \in DOMAIN raw : raw[v] \in PosKeys(t)
    /\ \A v \in DOMAIN raw : \A k \in 1..K : t.out[v][k] >= raw[v][k]
    /\ \A k \in 1..K : ColSum(t.out, k) - ColSum(raw, k) = Need(raw, t.sizes, k)

FailedRun(t) ==
    LET K == Len(t.sizes) IN
    IF t.raised # "" THEN {"raised"} ELSE
    IF ~t.types_ok THEN {"entries_not_hashable_nonneg_int_tuples"} ELSE
    IF Len(t.out) # t.N THEN {"length"} ELSE
    {c \in {"divisible", "support", "never_removes", "fewest", "usable_by_empirical_loader", "usable_by_generator",
            "returned_sequence_changed_by_a_later_sample"} :
       CASE c = "divisible" -> \E k \in 1..K : ColSum(t.out, k) % t.sizes[k] # 0
         [] c = "support" -> t.raw_known /\ \E v \in DOMAIN t.raw : t.raw[v] \notin PosKeys(t)
         [] c = "never_removes" -> t.raw_known /\ Len(t.raw) = t.N /\ \E v \in DOMAIN t.raw : \E k \in 1..K : t.out[v][k] < t.raw[v][k]
         [] c = "fewest" ->
               IF t.raw_known THEN Len(t.raw) # t.N \/ \E k \in 1..K : ColSum(t.out, k) - ColSum(t.raw, k) # Need(t.raw, t.sizes, k)
               ELSE t.N <= 4 /\ ~\E raw \in [1..t.N -> PosKeys(t)] : ExplainedBy(t, raw)
         [] c = "usable_by_empirical_loader" -> t.usable_empirical # ""
         [] c = "usable_by_generator" -> t.usable_generator # ""
         [] c = "returned_sequence_changed_by_a_later_sample" -> t.out_again # t.out}

FailedDist(t) ==
    LET W == SumSeq(t.wts)
        npos == Cardinality(PosKeys(t))
    IN IF ~t.decided THEN {} ELSE
    {c \in {"weights", "support_complete", "outside_support", "not_normalised"} :
       CASE c = "weights" -> \E i \in DOMAIN t.tally :
                 LET o == t.tally[i] IN
                 o.num * Pow(W, t.N) # o.den * ProdSeq([j \in DOMAIN o.raw |-> Wt(t, o.raw[j])])
         [] c = "support_complete" -> Len(t.tally) < Pow(npos, t.N)
         [] c = "outside_support" -> \E i \in DOMAIN t.tally : \E j \in DOMAIN t.tally[i].raw : t.tally[i].raw[j] \notin PosKeys(t)
         [] c = "not_normalised" -> ~t.sum_one}

Failed(t) == IF t.kind = "run" THEN FailedRun(t) ELSE FailedDist(t)
Verdict(t) == LET f == Failed(t) IN IF f = {} THEN "ok" ELSE "violation:" \o (CHOOSE c \in f : TRUE)
Init == tid = 0
Next == /\ tid < Len(Traces) /\ tid' = tid + 1
        /\ PrintT("VERDICT " \o ToJson([tid |-> tid', v |-> Verdict(Traces[tid']), failed |-> Failed(Traces[tid'])]))
Spec == Init /\ [][Next]_tid
=============================================================================
