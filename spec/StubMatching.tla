---------------------------- MODULE StubMatching ----------------------------
(* gcmpy/gcm_algorithm: the fast / network / custom-motif generators.
   Properties C01 (exact realisation of the joint degree sequence), C02
   (parallel columns, motif ids, names) and the model side of C03 (every
   stub permutation equally likely => configuration-model measure).

   A motif configuration is data:
     sizes[k]    number of stubs of joint-degree column k consumed per motif
     motifs[j]   [orbits |-> <<k1,..>>, shape |-> <<<<p,q>>,..>>, bare |-> BOOLEAN]
                 shape = the build callback as position pairs into the vertex
                 list it is handed; bare = the callback returns one bare edge
     custom      TRUE: GCMAlgorithmCustomMotifs (partitions popped from the end,
                 orbits flattened in order); FALSE: GCMAlgorithmFast (grouper)   *)
EXTENDS Naturals, Sequences, FiniteSets, TLC

CONSTANTS N, MaxDeg, StubCap, Configs, PinnedLen2, MaxCalls

VARIABLES cfg, jds, stubs, phase, kk, parts, mj, left, calls, edgeCol, topCol, midCol, nextId, ncalls
vars == <<cfg, jds, stubs, phase, kk, parts, mj, left, calls, edgeCol, topCol, midCol, nextId, ncalls>>

V == 0..(N - 1)
K == Len(cfg.sizes)
RECURSIVE SumSeq(_)
SumSeq(s) == IF s = <<>> THEN 0 ELSE Head(s) + SumSeq(Tail(s))
ColSum(j, k) == SumSeq([v \in 1..N |-> j[v][k]])
RECURSIVE Repeat(_, _)
Repeat(x, n) == IF n = 0 THEN <<>> ELSE <<x>> \o Repeat(x, n - 1)
RECURSIVE Flatten(_)
Flatten(ss) == IF ss = <<>> THEN <<>> ELSE Head(ss) \o Flatten(Tail(ss))
(* chain.from_iterable(starmap(repeat, enumerate(column))) *)
StubList(j, k) == Flatten([v \in 1..N |-> Repeat(v - 1, j[v][k])])
Count(s, x) == Cardinality({i \in DOMAIN s : s[i] = x})
Chunks(s, n) == [g \in 1..(Len(s) \div n) |-> SubSeq(s, (g - 1) * n + 1, g * n)]

Consistent(c, j) == \A k \in 1..Len(c.sizes) :
                        /\ ColSum(j, k) % c.sizes[k] = 0
                        /\ ColSum(j, k) <= StubCap
(* every orbit of one motif must ask for the same number of motifs *)
OrbitsAgree(c, j) == \A m \in DOMAIN c.motifs : \A a, b \in DOMAIN c.motifs[m].orbits :
      ColSum(j, c.motifs[m].orbits[a]) \div c.sizes[c.motifs[m].orbits[a]]
    = ColSum(j, c.motifs[m].orbits[b]) \div c.sizes[c.motifs[m].orbits[b]]

Init ==
    /\ cfg \in Configs
    /\ jds \in [1..N -> [1..Len(cfg.sizes) -> 0..MaxDeg]]
    /\ Consistent(cfg, jds) /\ OrbitsAgree(cfg, jds)
    /\ stubs = [k \in 1..Len(cfg.sizes) |-> StubList(jds, k)]
    /\ phase = "shuffle" /\ kk = 1
    /\ parts = <<>> /\ mj = 1 /\ left = 0
    /\ calls = <<>> /\ edgeCol = <<>> /\ topCol = <<>> /\ midCol = <<>> /\ nextId = 0 /\ ncalls = 1

(* random.shuffle(k_list): any permutation, one column at a time *)
Shuffle ==
    /\ phase = "shuffle" /\ kk <= K
    /\ \E p \in Permutations(1..Len(stubs[kk])) :
          stubs' = [stubs EXCEPT ![kk] = [i \in 1..Len(stubs[kk]) |-> stubs[kk][p[i]]]]
    /\ kk' = kk + 1
    /\ UNCHANGED <<cfg, jds, phase, parts, mj, left, calls, edgeCol, topCol, midCol, nextId, ncalls>>

MotifCount(m) == Len(stubs[cfg.motifs[m].orbits[1]]) \div cfg.sizes[cfg.motifs[m].orbits[1]]

Partition ==
    /\ phase = "shuffle" /\ kk > K
    /\ parts' = [k \in 1..K |-> Chunks(stubs[k], cfg.sizes[k])]
    /\ phase' = "emit" /\ mj' = 1 /\ left' = MotifCount(1)
    /\ UNCHANGED <<cfg, jds, stubs, kk, calls, edgeCol, topCol, midCol, nextId, ncalls>>

Apply(shape, verts) == [i \in DOMAIN shape |-> <<verts[shape[i][1]], verts[shape[i][2]]>>]
NameOf(m, i) == <<m, IF cfg.custom THEN i ELSE 0>>        \* fast: one name per topology

(* the three extend() calls are one step *)
Extend(m, es) ==
    /\ edgeCol' = edgeCol \o es
    /\ topCol' = topCol \o [i \in DOMAIN es |-> NameOf(m, i)]
    /\ midCol' = midCol \o [i \in DOMAIN es |-> nextId]
    /\ nextId' = nextId + 1

(* pinned gcm_algorithm_custom_motifs.py:66-79: ids extended by len(es) BEFORE the len(es)==2 re-pack *)
Extend_PinnedLen2(m, es, bare) ==
    LET rawLen == IF bare THEN 2 ELSE Len(es) IN
    /\ midCol' = midCol \o [i \in 1..rawLen |-> nextId]
    /\ IF rawLen = 2
       THEN /\ edgeCol' = Append(edgeCol, IF bare THEN es[1] ELSE <<es[1], es[2]>>)
            /\ topCol' = Append(topCol, NameOf(m, 1))
       ELSE /\ edgeCol' = edgeCol \o es
            /\ topCol' = topCol \o [i \in DOMAIN es |-> NameOf(m, i)]
    /\ nextId' = nextId + 1

NextMotifType ==
    IF mj < Len(cfg.motifs)
    THEN mj' = mj + 1 /\ left' = MotifCount(mj + 1) /\ phase' = phase
    ELSE mj' = mj /\ left' = 0 /\ phase' = "done"

Emit ==
    /\ phase = "emit"
    /\ IF left = 0
       THEN /\ NextMotifType
            /\ UNCHANGED <<parts, calls, edgeCol, topCol, midCol, nextId>>
       ELSE LET mo == cfg.motifs[mj]
                \* custom: partitions[index].pop() for every orbit; fast: next group from the front
                pick(k) == IF cfg.custom THEN parts[k][Len(parts[k])] ELSE parts[k][1]
                rest(k) == IF cfg.custom THEN SubSeq(parts[k], 1, Len(parts[k]) - 1) ELSE Tail(parts[k])
                verts == Flatten([o \in DOMAIN mo.orbits |-> pick(mo.orbits[o])])
                es == Apply(mo.shape, verts)
            IN /\ parts' = [k \in 1..K |-> IF \E o \in DOMAIN mo.orbits : mo.orbits[o] = k
                                            THEN rest(k) ELSE parts[k]]
               /\ calls' = Append(calls, [m |-> mj, verts |-> verts, ret |-> es])
               /\ IF PinnedLen2 /\ cfg.custom THEN Extend_PinnedLen2(mj, es, mo.bare) ELSE Extend(mj, es)
               /\ left' = left - 1 /\ mj' = mj /\ phase' = phase
    /\ UNCHANGED <<cfg, jds, stubs, kk, ncalls>>

(* crash point: the build callback of the next motif raises instead of returning (a user callback is arbitrary
   code); the exception leaves random_clustered_graph, the partial result is lost and the caller keeps the
   generator object.  Nothing else happens: in particular no column, counter or stub list of the aborted call
   may be visible to the next call (GenerateAgain starts from "aborted" exactly as from "done").
   AbortLeaks names the deviations "the aborted call's state survives", refuted in
   MC_StubMatching_abortleak.cfg (C01_Count) and MC_StubMatching_abortleak_cols.cfg (C02_IdsPartitionCalls). *)
AbortLeaks == "none"      \* "all": callback log, columns and counter survive; "columns": the edge list columns and the counter only
Abort ==
    /\ phase = "emit" /\ left > 0 /\ ncalls < MaxCalls
    /\ phase' = "aborted"
    /\ UNCHANGED <<cfg, jds, stubs, kk, parts, mj, left, calls, edgeCol, topCol, midCol, nextId, ncalls>>

(* history: the same generator object is asked for another graph; nothing of the previous call survives
   (fresh stub lists, fresh id counter, fresh columns) - whether that call returned or was aborted *)
GenerateAgain ==
    /\ phase \in {"done", "aborted"} /\ ncalls < MaxCalls
    /\ jds' \in [1..N -> [1..Len(cfg.sizes) -> 0..MaxDeg]]
    /\ Consistent(cfg, jds') /\ OrbitsAgree(cfg, jds')
    /\ stubs' = [k \in 1..Len(cfg.sizes) |-> StubList(jds', k)]
    /\ phase' = "shuffle" /\ kk' = 1 /\ parts' = <<>> /\ mj' = 1 /\ left' = 0
    /\ IF AbortLeaks = "all" /\ phase = "aborted" THEN UNCHANGED calls ELSE calls' = <<>>
    /\ IF AbortLeaks # "none" /\ phase = "aborted"
       THEN UNCHANGED <<edgeCol, topCol, midCol, nextId>>
       ELSE edgeCol' = <<>> /\ topCol' = <<>> /\ midCol' = <<>> /\ nextId' = 0
    /\ ncalls' = ncalls + 1
    /\ UNCHANGED cfg

Next == Shuffle \/ Partition \/ Emit \/ Abort \/ GenerateAgain
Spec == Init /\ [][Next]_vars

(* ------------------------------ properties ------------------------------ *)
Done == phase = "done"
CallsOf(m) == {c \in DOMAIN calls : calls[c].m = m}
(* positions of the vertex list that were fed by orbit number o of motif m *)
Offset(m, o) == SumSeq([x \in 1..(o - 1) |-> cfg.sizes[cfg.motifs[m].orbits[x]]])
OrbitPos(m, o) == (Offset(m, o) + 1)..(Offset(m, o) + cfg.sizes[cfg.motifs[m].orbits[o]])

C01_Count == Done => \A m \in DOMAIN cfg.motifs : \A o \in DOMAIN cfg.motifs[m].orbits :
                 LET k == cfg.motifs[m].orbits[o] IN
                 Cardinality(CallsOf(m)) * cfg.sizes[k] = ColSum(jds, k)
C01_Slots == Done => \A m \in DOMAIN cfg.motifs : \A o \in DOMAIN cfg.motifs[m].orbits :
                 LET k == cfg.motifs[m].orbits[o] IN
                 \A v \in V : Cardinality({<<c, p>> \in CallsOf(m) \X OrbitPos(m, o) : calls[c].verts[p] = v})
                              = jds[v + 1][k]
C01_Range == \A c \in DOMAIN calls : \A p \in DOMAIN calls[c].verts : calls[c].verts[p] \in V
C01_CallShape == \A c \in DOMAIN calls :
                 Len(calls[c].verts) = SumSeq([o \in DOMAIN cfg.motifs[calls[c].m].orbits |->
                                               cfg.sizes[cfg.motifs[calls[c].m].orbits[o]]])

C02_ColumnsParallel == Len(edgeCol) = Len(topCol) /\ Len(topCol) = Len(midCol)
C02_Pairs == \A i \in DOMAIN edgeCol : Len(edgeCol[i]) = 2 /\ edgeCol[i][1] \in V /\ edgeCol[i][2] \in V
(* the entries sharing an id are exactly the edges one call returned; ids are per call *)
BlockStart(c) == SumSeq([x \in 1..(c - 1) |-> Len(calls[x].ret)])
C02_IdsPartitionCalls ==
    C02_ColumnsParallel =>
    /\ Len(edgeCol) = SumSeq([c \in DOMAIN calls |-> Len(calls[c].ret)])
    /\ \A c \in DOMAIN calls : \A i \in DOMAIN calls[c].ret :
          /\ edgeCol[BlockStart(c) + i] = calls[c].ret[i]
          /\ midCol[BlockStart(c) + i] = midCol[BlockStart(c) + 1]
          /\ topCol[BlockStart(c) + i] = NameOf(calls[c].m, i)
    /\ \A c, d \in DOMAIN calls : (c # d /\ calls[c].ret # <<>> /\ calls[d].ret # <<>>) =>
          midCol[BlockStart(c) + 1] # midCol[BlockStart(d) + 1]

(* C03, model side: under Shuffle every arrangement of column k has the same number of
   preimage permutations (prod_v jds[v][k]!), so uniform permutations push forward to the
   uniform measure on arrangements; checked on the initial stub lists. *)
Fact(n) == IF n = 0 THEN 1 ELSE IF n = 1 THEN 1 ELSE IF n = 2 THEN 2 ELSE IF n = 3 THEN 6
           ELSE IF n = 4 THEN 24 ELSE IF n = 5 THEN 120 ELSE 720
RECURSIVE ProdSeq(_)
ProdSeq(s) == IF s = <<>> THEN 1 ELSE Head(s) * ProdSeq(Tail(s))
C03_Fibres ==
    (phase = "shuffle" /\ kk = 1) =>
    \A k \in 1..K :
       LET n == Len(stubs[k])
           arrOf(p) == [i \in 1..n |-> stubs[k][p[i]]]
           arrs == {arrOf(p) : p \in Permutations(1..n)}
           fibre == ProdSeq([v \in 1..N |-> Fact(jds[v][k])])
       IN /\ \A a \in arrs : Cardinality({p \in Permutations(1..n) : arrOf(p) = a}) = fibre
          /\ Cardinality(arrs) * fibre = Fact(n)
=============================================================================
