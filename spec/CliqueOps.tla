------------------------------ MODULE CliqueOps ------------------------------
(* graph helpers shared by the cover specifications: a graph is a set of 2-element sets *)
EXTENDS Naturals, FiniteSets
Pairs(S) == {{a, b} : a \in S, b \in S} \ {{a} : a \in S}
VertsOf(g) == UNION g
RECURSIVE Grow(_, _, _)
Grow(g, level, acc) ==
    IF level = {} THEN acc
    ELSE LET vs == VertsOf(g)
             nxt == {x[1] \cup {x[2]} : x \in {y \in level \X vs : \A u \in y[1] : y[2] > u /\ {u, y[2]} \in g}}
         IN Grow(g, nxt, acc \cup nxt)
Cliques(g) == Grow(g, g, g)                      \* all cliques with at least two vertices
=============================================================================
