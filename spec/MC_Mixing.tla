------------------------------ MODULE MC_Mixing ------------------------------
EXTENDS Mixing
KeySpace(tn) == IF tn = 1 THEN {<<0>>, <<1>>, <<2>>, <<3>>}
                ELSE IF tn = 2 THEN {<<0, 0>>, <<1, 0>>, <<0, 1>>, <<1, 1>>, <<2, 1>>, <<1, 2>>}
                ELSE {<<0, 0, 0>>, <<1, 1, 1>>, <<2, 0, 1>>, <<0, 1, 0>>, <<1, 2, 0>>}
DistsOf(tn) == {d \in [KeySpace(tn) -> 0..2] : Cardinality({k \in KeySpace(tn) : d[k] > 0}) \in 1..3}
AllDists == UNION {{[k \in {x \in KeySpace(tn) : d[x] > 0} |-> d[k]] : d \in DistsOf(tn)} : tn \in 1..3}
AllNames == {<<"2-clique">>, <<"x">>, <<"2-clique", "3-clique">>, <<"x", "y">>, <<"3-clique", "2-clique-blue">>,
             <<"2-clique", "3-clique", "4-clique">>, <<"a", "b", "c">>}
=============================================================================
