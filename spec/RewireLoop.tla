------------------------------ MODULE RewireLoop ------------------------------
(* Control flow of MarkovChainMonteCarloRewiring.rewire()
   (gcmpy/tools/markov_chain_monte_carlo_rewiring.py:347-435), one level below
   Rewiring.tla (which models WHAT one accepted swap does to the graph): the two
   nested while-loops, their counters, the give-up rule and the bookkeeping of
   the proposal_efficiency decorator.  Not a listed property - part of the
   growth of the specification (DESIGN.md 9).

   The environment resolves four questions: which edge a draw returns (only its
   topology matters here), whether a pair of corners is suitable, and whether the
   Metropolis rule accepts.  They arrive as events
        draw(top)  corner  suitable(r)  metropolis(r)  return
   which are exactly the calls the conformance harness can observe from outside
   (DrawSet.draw, get_all_edges, is_edge_choice_suitable, swap_condition).
   Loop tests that observe nothing (while conditions, the give-up test) are
   silent steps; Settle runs them until the machine waits for the next event.

   Modelled as the code is, with its oddities named:
     * `while convergence_count <= limit`  => limit + 1 accepted swaps;
     * a topology mismatch `continue`s WITHOUT counting a search attempt;
     * `if search_count >= search_limit: continue` discards a suitable pair found
       on the last permitted attempt (DiscardLastTry), hence search_limit = 0 can
       never evaluate a swap and rewire() cannot return;
     * the decorator counts on the CLASS MarkovChainMonteCarlo while rewire()
       reads the INSTANCE attributes set to 0 in __init__, so the acceptance
       ratio is never sampled (InstanceCounters = FALSE).                        *)
EXTENDS Naturals, Sequences, TLC

CONSTANTS Limit, SearchLimit,      \* the two parameters of the call
          Tops,                    \* topologies an edge may carry
          Cap,                     \* counters of the decorator saturate here (keeps the liveness graph finite)
          DiscardLastTry,          \* TRUE = the code: give up when search_count >= search_limit even if a pair was found
          InstanceCounters         \* FALSE = the code: rewire() never sees the decorator's counts

Bump(x) == IF x < Cap THEN x + 1 ELSE x
P0 == [limit |-> Limit, search |-> SearchLimit]

S0 == [pc |-> "top", cc |-> 0, sc |-> 0, evals |-> 0, t0 |-> "", found |-> FALSE,
       props |-> 0, acc |-> 0, iprops |-> 0, iacc |-> 0, ratio |-> 0, discarded |-> 0]

(* ------------------------------- silent steps ------------------------------- *)
LoopTestF(s, P) ==          \* while convergence_count <= limit:  + the ratio sample at the head of the body
    IF s.cc <= P.limit
    THEN [s EXCEPT !.pc = "pick", !.ratio = IF s.cc % 50 = 0 /\ s.iprops # 0 THEN Bump(@) ELSE @]
    ELSE [s EXCEPT !.pc = "done"]
SearchTestF(s, P) ==        \* while search_count <= search_limit:
    IF s.sc <= P.search THEN [s EXCEPT !.pc = "draw1"] ELSE [s EXCEPT !.pc = "after"]
AfterF(s, P) ==             \* if search_count >= search_limit: continue
    LET giveup == IF DiscardLastTry THEN s.sc >= P.search ELSE ~s.found IN
    IF giveup THEN [s EXCEPT !.pc = "top", !.discarded = IF s.found THEN Bump(@) ELSE @]
    ELSE [s EXCEPT !.pc = "metro"]

RECURSIVE Settle(_, _)
Settle(s, P) == CASE s.pc = "top" -> Settle(LoopTestF(s, P), P)
                  [] s.pc = "search" -> Settle(SearchTestF(s, P), P)
                  [] s.pc = "after" -> Settle(AfterF(s, P), P)
                  [] OTHER -> s

(* ---------------------------------- events ---------------------------------- *)
OnEvent(s, ev, P) ==
    CASE s.pc = "pick" /\ ev.ev = "draw" ->                       \* e0 = EdgeSet.draw()
            [s EXCEPT !.pc = "e0drawn", !.t0 = ev.top, !.found = FALSE]
      [] s.pc = "e0drawn" /\ ev.ev = "corner" ->                  \* u_edges_in_motif; search_count = 0
            [s EXCEPT !.pc = "search", !.sc = 0, !.evals = 0]
      [] s.pc = "draw1" /\ ev.ev = "draw" ->                      \* e1 = EdgeSet.draw(); other topology: continue, nothing counted
            IF ev.top = s.t0 THEN [s EXCEPT !.pc = "e1drawn"] ELSE [s EXCEPT !.pc = "search"]
      [] s.pc = "e1drawn" /\ ev.ev = "corner" ->
            [s EXCEPT !.pc = "e1corner"]
      [] s.pc = "e1corner" /\ ev.ev = "suitable" ->
            IF ev.r THEN [s EXCEPT !.pc = "after", !.found = TRUE, !.evals = @ + 1]          \* break
            ELSE [s EXCEPT !.pc = "search", !.sc = @ + 1, !.evals = @ + 1]
      [] s.pc = "metro" /\ ev.ev = "metropolis" ->
            [s EXCEPT !.pc = "top", !.props = Bump(@), !.acc = IF ev.r THEN Bump(@) ELSE @,
                      !.iprops = IF InstanceCounters THEN Bump(@) ELSE @,
                      !.iacc = IF InstanceCounters /\ ev.r THEN Bump(@) ELSE @,
                      !.cc = IF ev.r THEN @ + 1 ELSE @]
      [] s.pc = "done" /\ ev.ev = "return" -> [s EXCEPT !.pc = "returned"]
      [] OTHER -> [s EXCEPT !.pc = "error"]

(* --------------------------------- the machine --------------------------------- *)
VARIABLE st
vars == <<st>>
Init == st = Settle(S0, P0)
Take(ev) == st' = Settle(OnEvent(st, ev, P0), P0)
Ev(name, top, r) == [ev |-> name, top |-> top, r |-> r]

DrawE0 == st.pc = "pick" /\ \E t \in Tops : Take(Ev("draw", t, FALSE))
CornerE0 == st.pc = "e0drawn" /\ Take(Ev("corner", "", FALSE))
DrawE1Match == st.pc = "draw1" /\ Take(Ev("draw", st.t0, FALSE))
DrawE1Mismatch == st.pc = "draw1" /\ \E t \in Tops \ {st.t0} : Take(Ev("draw", t, FALSE))
CornerE1 == st.pc = "e1drawn" /\ Take(Ev("corner", "", FALSE))
SuitableYes == st.pc = "e1corner" /\ Take(Ev("suitable", "", TRUE))
SuitableYesEarly == st.pc = "e1corner" /\ (DiscardLastTry => st.sc < SearchLimit) /\ Take(Ev("suitable", "", TRUE))   \* a find that will be evaluated
SuitableNo == st.pc = "e1corner" /\ Take(Ev("suitable", "", FALSE))
Accept == st.pc = "metro" /\ Take(Ev("metropolis", "", TRUE))
Reject == st.pc = "metro" /\ Take(Ev("metropolis", "", FALSE))
Return == st.pc = "done" /\ Take(Ev("return", "", FALSE))

Next == DrawE0 \/ CornerE0 \/ DrawE1Match \/ DrawE1Mismatch \/ CornerE1 \/ SuitableYes \/ SuitableNo
        \/ Accept \/ Reject \/ Return
Spec == Init /\ [][Next]_vars
(* a fair environment: a same-topology edge is eventually drawn, an early suitable pair eventually found, a swap eventually accepted *)
FairSpec == Spec /\ WF_vars(Next) /\ SF_vars(DrawE1Match) /\ SF_vars(SuitableYesEarly) /\ SF_vars(Accept)

(* ---------------------------------- properties ---------------------------------- *)
TypeOK == st.pc \in {"pick", "e0drawn", "draw1", "e1drawn", "e1corner", "metro", "done", "returned"}
L_NeverStuck == st.pc # "error"
L_SwapOnlyForSuitablePair == st.pc = "metro" => st.found /\ (DiscardLastTry => st.sc < SearchLimit)
BoundsF(s, P) == s.evals <= P.search + 1 /\ s.sc <= P.search + 1 /\ s.cc <= P.limit + 1
L_SearchBound == st.evals <= SearchLimit + 1 /\ st.sc <= SearchLimit + 1
L_CountersAgree == (st.props < Cap) => (st.acc = st.cc /\ st.acc <= st.props)
L_SwapsBounded == st.cc <= Limit + 1
L_ReturnsAfterLimitPlusOne == st.pc \in {"done", "returned"} => st.cc = Limit + 1
L_RatioNeverSampled == st.ratio = 0 /\ st.iprops = 0                    \* holds for the code; refuted with InstanceCounters
L_AcceptCounts == [][(st.pc = "metro" /\ st'.cc # st.cc) => (st'.cc = st.cc + 1 /\ st'.props = Bump(st.props))]_vars
L_MismatchIsFree == [][(st.pc = "draw1" /\ st'.pc = "draw1") => st'.sc = st.sc]_vars
L_OnlyAcceptedSwapsCount == [][st'.cc # st.cc => st.pc = "metro"]_vars
(* claims the code does NOT satisfy; each has a config in which TLC must refute it *)
L_EverySuitablePairIsEvaluated == st.discarded = 0
L_Terminates == <>(st.pc = "returned")
=============================================================================
