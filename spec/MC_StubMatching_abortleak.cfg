SPECIFICATION Spec
CONSTANT N = 2
CONSTANT MaxDeg = 2
CONSTANT StubCap = 4
CONSTANT Configs <- AllConfigs
CONSTANT MaxCalls = 2
CONSTANT PinnedLen2 = FALSE
CONSTANT AbortLeaks <- LeakAll
INVARIANT C01_Count
INVARIANT C01_Slots
INVARIANT C01_Range
INVARIANT C01_CallShape
INVARIANT C02_ColumnsParallel
INVARIANT C02_Pairs
INVARIANT C02_IdsPartitionCalls
INVARIANT C03_Fibres
CHECK_DEADLOCK FALSE
