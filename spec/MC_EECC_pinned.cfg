SPECIFICATION Spec
CONSTANT MaxV = 5
CONSTANT M0s = {2, 3, 4, 5}
CONSTANT MaxUses = 1
CONSTANT PinnedDedup = TRUE
INVARIANT C09_Cliques
INVARIANT C09_Disjoint
INVARIANT C09_WorkingGraph
INVARIANT C09_Cover
INVARIANT C09_NoEdgesLeft
INVARIANT C09_IsolatedIntact
INVARIANT C09_NeverStuck
CHECK_DEADLOCK FALSE
