SPECIFICATION FairSpec
CONSTANT MaxV = 4
CONSTANT M0s = {2, 3, 4}
CONSTANT MaxUses = 1
CONSTANT PinnedDedup = FALSE
PROPERTY C09_Terminates
CHECK_DEADLOCK FALSE
