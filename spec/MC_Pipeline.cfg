SPECIFICATION Spec
CONSTANT N = 4
CONSTANT Sizes <- EdgeTri
CONSTANT MaxDeg = 2
CONSTANT StubCap = 4
INVARIANT PI_AllVerticesPresent
INVARIANT PI_JddOfNetwork
INVARIANT PI_CleanDegrees
INVARIANT PI_EdgesComeFromMotifs
CHECK_DEADLOCK FALSE
