SPECIFICATION Spec
CONSTANT MaxN = 3
CONSTANT MaxRows = 2
CONSTANT Tops = {"a", "b"}
CONSTANT Mids = {0, 1}
CONSTANT PinnedNodesFromEdges = FALSE
INVARIANT C04_Nodes
INVARIANT C04_Edges
INVARIANT C04_AttrOnce
INVARIANT C04_BackJds
INVARIANT C04_BackRows
INVARIANT C04_RoundTrip
INVARIANT C04_BackEnabled
CHECK_DEADLOCK FALSE
