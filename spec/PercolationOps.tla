--------------------------- MODULE PercolationOps ---------------------------
(* variable-free bond-percolation semantics shared by Percolation.tla and the message-passing judge *)
EXTENDS Integers, Sequences, FiniteSets, TLC
(* ------------------------------ pure semantics ------------------------------ *)
RECURSIVE Reach(_, _)
Reach(open, S) == LET nxt == S \cup UNION {e \in open : e \cap S # {}} IN IF nxt = S THEN S ELSE Reach(open, nxt)
RECURSIVE Binom(_, _)
Binom(n, k) == IF k < 0 \/ k > n THEN 0 ELSE IF k = 0 \/ k = n THEN 1 ELSE Binom(n - 1, k - 1) + Binom(n - 1, k)
Sign(k) == IF k % 2 = 0 THEN 1 ELSE -1
ISumSet(S, f(_)) == LET RECURSIVE go(_)
                        go(R) == IF R = {} THEN 0 ELSE LET x == CHOOSE y \in R : TRUE IN f(x) + go(R \ {x})
                    IN go(S)
(* configuration table: every edge subset with its (number of open edges, root component) *)
CfgTable(E, root) == TLCEval([o \in SUBSET E |-> <<Cardinality(o), Reach(o, {root})>>])
(* Coef(a, C): coefficient of phi^a * prod_{C \ root} u in the exact expectation *)
CoefTable(E, root) ==
    LET tab == CfgTable(E, root)
        m == Cardinality(E)
        comps == {tab[o][2] : o \in DOMAIN tab}
        N(j, C) == Cardinality({o \in DOMAIN tab : tab[o] = <<j, C>>})
        NT == TLCEval([x \in (0..m) \X comps |-> N(x[1], x[2])])
    IN {r \in {<<a, C, ISumSet(0..a, LAMBDA j : NT[<<j, C>>] * Sign(a - j) * Binom(m - j, a - j))>> : a \in 0..m, C \in comps} : r[3] # 0}

(* number of connected labelled graphs on 1..n with k edges, by brute force *)
AllPairs(n) == {{a, b} : a \in 1..n, b \in 1..n} \ {{a} : a \in 1..n}
Conn(n, k) == Cardinality({S \in SUBSET AllPairs(n) : Cardinality(S) = k /\ Reach(S, {1}) = 1..n})
(* number of ways to delete k edges from the subgraph induced on A and stay connected (A contains the focal vertex) *)
NCG(E, A, k) == LET ind == {e \in E : e \subseteq A}
                    any == CHOOSE x \in A : TRUE
                IN Cardinality({D \in SUBSET ind : Cardinality(D) = k /\ Reach(ind \ D, {any}) = A})

RECURSIVE Pow(_, _)
Pow(b, e) == IF e = 0 THEN 1 ELSE b * Pow(b, e - 1)
=============================================================================
