SPECIFICATION FairSpec
CONSTANT Covers <- TreeCovers
CONSTANT Cap = 6
PROPERTY C17_TreeConverges
CHECK_DEADLOCK FALSE
