----------------------------- MODULE Conversion -----------------------------
(* gcmpy/network: EdgeListToNetwork.convert and NetworkToEdgeList.convert (C04).
   Edge list  EL  = [jds : Seq(tuple), rows : Seq([e : <<a,b>>, top, mid])]
   Network    NET = [nodes, jd : nodes -> tuple, edges : SUBSET of unordered pairs
                     (a self-loop is a singleton), attr : edges -> SUBSET [top, mid]]
   networkx keeps ONE attribute record per unordered pair; which occurrence of a
   repeated pair wins is dictionary-order dependent and the property does not
   constrain it, so the model keeps, for every edge, the SET of candidate records
   (a singleton for pairs that occur once, which is what C04 speaks about) and the
   implementation may hold any member.                                          *)
EXTENDS Naturals, Sequences, FiniteSets, TLC

CONSTANTS MaxN, MaxRows, Tops, Mids, PinnedNodesFromEdges

VARIABLES el, net, el2, net2, phase
vars == <<el, net, el2, net2, phase>>

UPair(e) == {e[1], e[2]}
Verts(n) == 0..(n - 1)
RowsOf(n) == [e : Verts(n) \X Verts(n), top : Tops, mid : Mids]
RECURSIVE SeqsUpTo(_, _)
SeqsUpTo(S, k) == IF k = 0 THEN {<<>>}
                  ELSE SeqsUpTo(S, k - 1) \cup {Append(s, x) : s \in {t \in SeqsUpTo(S, k - 1) : Len(t) = k - 1}, x \in S}
JdsOf(n) == [v \in 1..n |-> <<v, n - v>>]      \* any distinct tuples: conversion never looks inside
ELs == UNION {{[jds |-> JdsOf(n), rows |-> r] : r \in SeqsUpTo(RowsOf(n), MaxRows)} : n \in 1..MaxN}

(* ------------------------------- the two maps ------------------------------- *)
ToNet(E) ==
    LET n == Len(E.jds)
        pairs == {UPair(E.rows[i].e) : i \in DOMAIN E.rows}
        touched == UNION pairs
        nodes == IF PinnedNodesFromEdges THEN touched ELSE Verts(n) \cup touched
    IN [nodes |-> nodes,
        jd |-> [v \in nodes \cap Verts(n) |-> E.jds[v + 1]],   \* set_node_attributes ignores absent nodes
        edges |-> pairs,
        attr |-> [p \in pairs |-> {[top |-> E.rows[i].top, mid |-> E.rows[i].mid] :
                                    i \in {j \in DOMAIN E.rows : UPair(E.rows[j].e) = p}}]]

(* one row per edge, in ANY order and orientation; attribute = the record the graph holds *)
Orient(p) == IF Cardinality(p) = 1 THEN {<<CHOOSE x \in p : TRUE, CHOOSE x \in p : TRUE>>}
             ELSE {<<x, y>> : x \in p, y \in p} \ {<<x, x>> : x \in p}
ToELs(G, held) ==       \* held : edges -> the record actually stored
    LET n == Cardinality(G.nodes) IN
    {[jds |-> [v \in 1..n |-> G.jd[v - 1]], rows |-> r] :
        r \in {s \in [1..Cardinality(G.edges) -> [e : UNION {Orient(p) : p \in G.edges}, top : Tops, mid : Mids]] :
                 /\ {UPair(s[i].e) : i \in DOMAIN s} = G.edges
                 /\ \A i \in DOMAIN s : [top |-> s[i].top, mid |-> s[i].mid] = held[UPair(s[i].e)]}}

Init == el \in ELs /\ net = <<>> /\ el2 = <<>> /\ net2 = <<>> /\ phase = "el"
Convert == /\ phase = "el" /\ net' = ToNet(el) /\ phase' = "net" /\ UNCHANGED <<el, el2, net2>>
(* the reverse conversion indexes nodes 0..order-1: defined only when the node set is exactly that *)
Back == /\ phase = "net" /\ net.nodes = Verts(Cardinality(net.nodes)) /\ DOMAIN net.jd = net.nodes
        /\ \E held \in [net.edges -> [top : Tops, mid : Mids]] :
              /\ \A p \in net.edges : held[p] \in net.attr[p]
              /\ el2' \in ToELs(net, held)
        /\ phase' = "el2" /\ UNCHANGED <<el, net, net2>>
Again == /\ phase = "el2" /\ net2' = ToNet(el2) /\ phase' = "net2" /\ UNCHANGED <<el, net, el2>>
Next == Convert \/ Back \/ Again
Spec == Init /\ [][Next]_vars

(* -------------------------------- properties -------------------------------- *)
Once(E, p) == Cardinality({i \in DOMAIN E.rows : UPair(E.rows[i].e) = p}) = 1
C04_Nodes == phase # "el" => (net.nodes = Verts(Len(el.jds)) /\ \A v \in net.nodes : net.jd[v] = el.jds[v + 1])
C04_Edges == phase # "el" => net.edges = {UPair(el.rows[i].e) : i \in DOMAIN el.rows}
C04_AttrOnce == phase # "el" => \A i \in DOMAIN el.rows :
                    Once(el, UPair(el.rows[i].e)) =>
                        net.attr[UPair(el.rows[i].e)] = {[top |-> el.rows[i].top, mid |-> el.rows[i].mid]}
C04_BackJds == phase \in {"el2", "net2"} => el2.jds = el.jds
C04_BackRows == phase \in {"el2", "net2"} =>
                    /\ Len(el2.rows) = Cardinality(net.edges)
                    /\ \A i \in DOMAIN el2.rows : [top |-> el2.rows[i].top, mid |-> el2.rows[i].mid] \in net.attr[UPair(el2.rows[i].e)]
C04_RoundTrip == phase = "net2" =>
                    /\ net2.nodes = net.nodes /\ net2.jd = net.jd /\ net2.edges = net.edges
                    /\ \A p \in net2.edges : net2.attr[p] \subseteq net.attr[p] /\ Cardinality(net2.attr[p]) = 1
(* the reverse conversion is always possible on what the forward conversion produced *)
C04_BackEnabled == phase = "net" => ENABLED Back
=============================================================================
