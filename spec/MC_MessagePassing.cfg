SPECIFICATION Spec
CONSTANT Covers <- AllCovers
CONSTANT Cap = 6
VIEW View
INVARIANT C17_TreeFixedPointUnique
CHECK_DEADLOCK FALSE
