--------------------------- MODULE ConversionCases ---------------------------
(* CASES role for C04: the MC's input family written out for replay into the code *)
EXTENDS Conversion, Json, IOUtils, SequencesExt
ASSUME JsonSerialize(IOEnv.OUT_FILE, SetToSeq(ELs))
CInit == el = <<>> /\ net = <<>> /\ el2 = <<>> /\ net2 = <<>> /\ phase = "cases"
CSpec == CInit /\ [][FALSE]_vars
=============================================================================
