SPECIFICATION Spec
CONSTANT Nets <- AllNets
CONSTANT PinnedIds = FALSE
CONSTANT MaxSwaps = 3
CONSTRAINT DepthBound
VIEW GraphView
CONSTANT NoLoopCheck = FALSE
PROPERTY C12_Reversible
CHECK_DEADLOCK FALSE
