---------------------------- MODULE DrawSetTrace ----------------------------
(* JUDGE for C20: batch validation of recorded DrawSet histories.
   Every event carries the op, its argument, what it returned / whether it
   raised, and the full projected state afterwards (iteration order, len,
   the set of universe elements for which `in` is true, and - when the two
   private fields still exist - the list and the index map).
   violation:<clause>  a clause of C20 is false on the recorded data
   drift:<what>        the step is not the implementation-shaped action      *)
EXTENDS DrawSet, Json, IOUtils, TLC

Traces == JsonDeserialize(IOEnv.TRACE_FILE)

VARIABLES tid, l, viol, drift
tvars == <<vars, tid, l, viol, drift>>

Ev == Traces[tid].events[l]
SetOf(s) == {s[i] : i \in DOMAIN s}
PairsOf(s) == {<<s[i][1], s[i][2]>> : i \in DOMAIN s}

(* abstract set after the event, from op and argument only *)
ModelAfter(ev) ==
    CASE ev.op = "add" -> model \cup {ev.arg}
      [] ev.op = "remove" -> model \ {ev.arg}
      [] OTHER -> model

(* clauses of C20 evaluated on logged data against the plain-set model *)
Failed(ev) ==
    LET m2 == ModelAfter(ev) IN
    IF ev.obs_raised # "" THEN {"len_iteration_or_membership_raised"} ELSE
    {c \in {"len", "iter_members", "iter_once", "contains", "overlapping_iterations", "draw_member", "draw_raises",
            "absent_remove_raises", "present_remove_raises", "add_raises",
            "drawall_members", "drawall_uniform"} :
        CASE c = "len" -> ev.len # Cardinality(m2)
          [] c = "iter_members" -> SetOf(ev.iter) # m2
          [] c = "iter_once" -> ~NoDup(ev.iter)
          [] c = "contains" -> SetOf(ev.contains) # m2
          [] c = "overlapping_iterations" -> ev.iter_outer # ev.iter \/ ~ev.inner_full      \* for a in ds: for b in ds: ...
          [] c = "draw_member" -> ev.op = "draw" /\ ev.raised = "" /\ ev.res \notin model
          [] c = "draw_raises" -> ev.op = "draw" /\ ev.raised # "" /\ model # {}
          [] c = "absent_remove_raises" -> ev.op = "remove" /\ ev.arg \notin model /\ ev.raised = ""
          [] c = "present_remove_raises" -> ev.op = "remove" /\ ev.arg \in model /\ ev.raised # ""
          [] c = "add_raises" -> ev.op = "add" /\ ev.raised # ""
          [] c = "drawall_members" -> ev.op \in {"drawall", "drawsupport"} /\ SetOf(ev.results) # model
          [] c = "drawall_uniform" -> ev.op = "drawall" /\           \* exact law of one draw over its whole decision tree
                 ({ev.pm[i][1] : i \in DOMAIN ev.pm} # model \/ \E i \in DOMAIN ev.pm : ev.pm[i][2] * Cardinality(model) # ev.pm[i][3])}

(* the implementation-shaped next state *)
ImplAfter(ev) ==
    CASE ev.op = "add" -> AddF(St, ev.arg)
      [] ev.op = "remove" /\ ev.arg \in DOMAIN hmap -> RemoveF(St, ev.arg)
      [] OTHER -> St

Logged(ev) == [edges |-> ev.pedges,
               hmap |-> [e \in {p[1] : p \in PairsOf(ev.phmap)} |->
                           CHOOSE q \in {p[2] : p \in {pp \in PairsOf(ev.phmap) : pp[1] = e}} : TRUE]]

TInit == /\ Init /\ tid = 1 /\ l = 1 /\ viol = <<>> /\ drift = <<>>

Verdict == IF viol # <<>> THEN "violation:" \o viol[1][2]
           ELSE IF drift # <<>> THEN "drift:" \o drift[1][2] ELSE "ok"

Step ==
    /\ l <= Len(Traces[tid].events)
    /\ LET ev == Ev
           f == Failed(ev)
           off == drift # <<>>                 \* after the first drift the implementation-shaped layer is switched off for this trace
           exp == IF off THEN St ELSE ImplAfter(ev)
           same == off \/ (/\ ev.priv => (exp.edges = ev.pedges /\
                                          {<<e, exp.hmap[e]>> : e \in DOMAIN exp.hmap} = PairsOf(ev.phmap))
                           /\ (ev.op = "draw" /\ ev.choice >= 0 /\ ev.raised = "") =>
                                  (ev.choice < Len(edges) /\ ev.res = edges[ev.choice + 1]))
           nxt == exp
       IN /\ viol' = IF f = {} \/ Len(viol) >= 3 THEN viol
                     ELSE Append(viol, <<l, CHOOSE c \in f : TRUE>>)
          /\ drift' = IF same \/ Len(drift) >= 3 THEN drift ELSE Append(drift, <<l, ev.op>>)
          /\ edges' = nxt.edges /\ hmap' = nxt.hmap
          /\ model' = ModelAfter(ev)
          /\ last' = [op |-> ev.op]
    /\ l' = l + 1 /\ tid' = tid

Finish ==
    /\ l > Len(Traces[tid].events)
    /\ tid <= Len(Traces)
    /\ PrintT("VERDICT " \o ToJson([tid |-> tid, v |-> Verdict, viol |-> viol, drift |-> drift]))
    /\ tid' = tid + 1 /\ l' = 1 /\ viol' = <<>> /\ drift' = <<>>
    /\ edges' = <<>> /\ hmap' = <<>> /\ model' = {} /\ last' = [op |-> "init"]

TNext == tid <= Len(Traces) /\ (Step \/ Finish)
TSpec == TInit /\ [][TNext]_tvars
=============================================================================
