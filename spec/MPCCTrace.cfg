SPECIFICATION TSpec
CONSTANT MaxV = 0
CONSTANT Limits = {}
CONSTANT SmallFirst = FALSE
CHECK_DEADLOCK FALSE
