SPECIFICATION TSpec
CONSTANT MaxV = 0
CONSTANT Limits = {}
CONSTANT MaxCovers = 0
CONSTANT SmallFirst = FALSE
CHECK_DEADLOCK FALSE
