SPECIFICATION Spec
CONSTANT Steps = 3
CONSTANT MaxCalls = 3
CONSTANT Variant = "reset_at_start"
INVARIANT CP_CompleteCallEqualsFresh
PROPERTY CP_AbortChangesNoResult
CHECK_DEADLOCK FALSE
