------------------------------ MODULE Sampling ------------------------------
(* gcmpy/joint_degree/joint_degree.py: sample_jds_from_jdd + handshaking_lemma (C05).
   One action per random draw: N weighted draws of keys, then for every topology
   whose column sum is not divisible by the motif size, (size - sum % size) single
   stubs added to uniformly chosen vertices.                                     *)
EXTENDS Naturals, Sequences, FiniteSets, TLC

CONSTANTS MaxN, KeySpace(_), MaxKeys, MaxW, SizeChoices, SubtractDeviant

VARIABLES w, sizes, n, raw, jds, i, todo, added, phase, runs
vars == <<w, sizes, n, raw, jds, i, todo, added, phase, runs>>

RECURSIVE SumSeq(_)
SumSeq(s) == IF s = <<>> THEN 0 ELSE Head(s) + SumSeq(Tail(s))
ColSum(j, k) == SumSeq([v \in DOMAIN j |-> j[v][k]])
K == Len(sizes)

Dists(T) == {d \in [KeySpace(T) -> 0..MaxW] :
               LET sup == {k \in KeySpace(T) : d[k] > 0} IN sup # {} /\ Cardinality(sup) <= MaxKeys}

Init ==
    /\ \E T \in 1..2 : /\ w \in Dists(T)
                       /\ sizes \in [1..T -> SizeChoices]
    /\ n \in 1..MaxN
    /\ raw = <<>> /\ jds = <<>> /\ i = 0 /\ todo = 0 /\ added = <<>> /\ phase = "draw" /\ runs = 1

(* random.choices(keys, weights, k=N): each draw returns a key of positive weight *)
Draw == /\ phase = "draw" /\ Len(raw) < n
        /\ \E key \in {k \in DOMAIN w : w[k] > 0} : raw' = Append(raw, key)
        /\ UNCHANGED <<w, sizes, n, jds, i, todo, added, phase, runs>>
StartRepair == /\ phase = "draw" /\ Len(raw) = n
               /\ jds' = raw /\ phase' = "repair" /\ i' = 1 /\ added' = [k \in 1..K |-> 0]
               /\ todo' = (sizes[1] - (ColSum(raw, 1) % sizes[1])) % sizes[1]
               /\ UNCHANGED <<w, sizes, n, raw, runs>>
(* j = random.randrange(0, len(jds)); t[i] += 1 *)
Patch == /\ phase = "repair" /\ todo > 0
         /\ \E j \in 1..n :
               jds' = [jds EXCEPT ![j][i] = IF SubtractDeviant /\ @ > 0 THEN @ - 1 ELSE @ + 1]
         /\ todo' = todo - 1 /\ added' = [added EXCEPT ![i] = @ + 1]
         /\ UNCHANGED <<w, sizes, n, raw, i, phase, runs>>
NextTopology == /\ phase = "repair" /\ todo = 0
                /\ IF i < K
                   THEN /\ i' = i + 1 /\ phase' = phase
                        /\ todo' = (sizes[i + 1] - (ColSum(jds, i + 1) % sizes[i + 1])) % sizes[i + 1]
                   ELSE /\ phase' = "done" /\ i' = i /\ todo' = 0
                /\ UNCHANGED <<w, sizes, n, raw, jds, added, runs>>
(* history: the distribution held by the loader object is replaced and the object is sampled again *)
NewRun == /\ phase = "done"
          /\ w' \in {d \in Dists(Len(sizes)) : d # w}
          /\ raw' = <<>> /\ jds' = <<>> /\ i' = 0 /\ todo' = 0 /\ added' = <<>> /\ phase' = "draw" /\ runs' = runs + 1
          /\ UNCHANGED <<sizes, n>>
Next == Draw \/ StartRepair \/ Patch \/ NextTopology \/ NewRun
Spec == Init /\ [][Next]_vars
RunBound == runs <= 2

(* -------------------------------- properties -------------------------------- *)
Done == phase = "done"
C05_Length == Done => Len(jds) = n
C05_Divisible == Done => \A k \in 1..K : ColSum(jds, k) % sizes[k] = 0
C05_Fewest == Done => \A k \in 1..K :
                 /\ ColSum(jds, k) - ColSum(raw, k) = (sizes[k] - (ColSum(raw, k) % sizes[k])) % sizes[k]
                 /\ ColSum(jds, k) - ColSum(raw, k) < sizes[k]
C05_NeverRemoves == phase \in {"repair", "done"} => \A v \in 1..n : \A k \in 1..K : jds[v][k] >= raw[v][k]
C05_OnlyAdditions == [][phase = "repair" /\ phase' = "repair" =>
                          \A v \in 1..n : \A k \in 1..K : jds'[v][k] >= jds[v][k]]_vars
C05_Support == \A v \in DOMAIN raw : w[raw[v]] > 0
=============================================================================
