--------------------------- MODULE StubMatchingDist ---------------------------
(* JUDGE for C03: the exact distribution of stub arrangements obtained by walking
   the real generator through EVERY leaf of its RNG decision tree (weights are
   exact rationals num/den) must be the configuration-model measure:
   the outcomes are exactly the prod_k n_k!/prod_v jds[v][k]! valid arrangements
   and each has weight 1/that number.                                          *)
EXTENDS Naturals, Sequences, FiniteSets, TLC, Json, IOUtils
Traces == JsonDeserialize(IOEnv.TRACE_FILE)
VARIABLE tid
RECURSIVE SumSeq(_), ProdSeq(_), Fact(_)
SumSeq(s) == IF s = <<>> THEN 0 ELSE Head(s) + SumSeq(Tail(s))
ProdSeq(s) == IF s = <<>> THEN 1 ELSE Head(s) * ProdSeq(Tail(s))
Fact(n) == IF n <= 1 THEN 1 ELSE n * Fact(n - 1)

Failed(t) ==
    LET N == t.N
        K == Len(t.jds[1])
        n(k) == SumSeq([v \in 1..N |-> t.jds[v][k]])
        Arr(k) == Fact(n(k)) \div ProdSeq([v \in 1..N |-> Fact(t.jds[v][k])])
        Expected == ProdSeq([k \in 1..K |-> Arr(k)])
        ValidArr(o) == /\ Len(o.arr) = K
                       /\ \A k \in 1..K : \A v \in 0..(N - 1) :
                            Cardinality({i \in DOMAIN o.arr[k] : o.arr[k][i] = v}) = t.jds[v + 1][k]
    IN
    IF ~t.decided THEN {} ELSE
    {c \in {"invalid_outcome", "placement_unreachable", "placement_outside", "favoured", "not_normalised"} :
       CASE c = "invalid_outcome" -> \E i \in DOMAIN t.outcomes : ~ValidArr(t.outcomes[i])
         [] c = "placement_unreachable" -> Len(t.outcomes) < Expected
         [] c = "placement_outside" -> Len(t.outcomes) > Expected
            \* weight of each outcome is num/den and must equal 1/Expected
         [] c = "favoured" -> \E i \in DOMAIN t.outcomes : t.outcomes[i].num * Expected # t.outcomes[i].den
         [] c = "not_normalised" -> ~t.weights_sum_to_one}
Verdict(t) == LET f == Failed(t) IN IF f = {} THEN "ok" ELSE "violation:" \o (CHOOSE c \in f : TRUE)
Init == tid = 0
Next == /\ tid < Len(Traces) /\ tid' = tid + 1
        /\ PrintT("VERDICT " \o ToJson([tid |-> tid', v |-> Verdict(Traces[tid']), failed |-> Failed(Traces[tid'])]))
Spec == Init /\ [][Next]_tid
=============================================================================
