------------------------- MODULE MC_MessagePassing -------------------------
EXTENDS MessagePassing
Cv(c, t) == [c |-> c, tree |-> t]
(* tree-like covers: a triangle with pendant edges, a path of edges, a star of triangles, a 4-cycle motif with tails *)
T1 == Cv([m \in 1..3 |-> IF m = 1 THEN {1, 2, 3} ELSE IF m = 2 THEN {1, 4} ELSE {2, 5}], TRUE)
T2 == Cv([m \in 1..3 |-> {m, m + 1}], TRUE)
T3 == Cv([m \in 1..3 |-> IF m = 1 THEN {1, 2, 3} ELSE IF m = 2 THEN {1, 4, 5} ELSE {4, 6}], TRUE)
T4 == Cv([m \in 1..3 |-> IF m = 1 THEN {1, 2, 3, 4} ELSE IF m = 2 THEN {1, 5} ELSE {3, 6, 7}], TRUE)
(* cyclic covers: a ring of three edges; a triangle of triangles *)
R1 == Cv([m \in 1..3 |-> {m, (m % 3) + 1}], FALSE)
R2 == Cv([m \in 1..3 |-> IF m = 1 THEN {1, 2, 4} ELSE IF m = 2 THEN {2, 3, 5} ELSE {3, 1, 6}], FALSE)
TreeCovers == {T1, T2, T3, T4}
AllCovers == {T1, T2, T3, T4, R1, R2}
=============================================================================
