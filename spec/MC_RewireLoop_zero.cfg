SPECIFICATION FairSpec
CONSTANTS
  Limit = 2
  SearchLimit = 0
  Tops = {"a", "b"}
  Cap = 5
  DiscardLastTry = TRUE
  InstanceCounters = FALSE
INVARIANT TypeOK
INVARIANT L_NeverStuck
INVARIANT L_SwapOnlyForSuitablePair
INVARIANT L_SearchBound
INVARIANT L_CountersAgree
INVARIANT L_SwapsBounded
INVARIANT L_ReturnsAfterLimitPlusOne
INVARIANT L_RatioNeverSampled
PROPERTY L_AcceptCounts
PROPERTY L_MismatchIsFree
PROPERTY L_OnlyAcceptedSwapsCount
PROPERTY L_Terminates
CHECK_DEADLOCK FALSE
