--------------------------- MODULE RewireLoopTrace ---------------------------
(* Trace validation of rewire()'s control flow against RewireLoop.tla: every recorded
   call of DrawSet.draw / get_all_edges / is_edge_choice_suitable / swap_condition is one
   event; the spec infers what was not logged (which draw is e0 and which e1, the search
   counter, the give-up decision) and must explain the whole sequence.  Besides the event
   itself each line carries cheap observations:
      ok    the drawn edge is an edge of the working graph and the drawable set has
            exactly the working graph's edges
      gver  how many times the working graph's edge set has changed so far
   and the trace ends with the decorator's counters (class and instance view) and the
   number of acceptance-ratio samples.  Everything here is implementation-shaped:
   LOOP is not a listed property: its only claim is this conformance, so a mismatch is its violation. *)
EXTENDS RewireLoop, Json, IOUtils
Traces == JsonDeserialize(IOEnv.TRACE_FILE)

VARIABLES tid, l, bad
tvars == <<st, tid, l, bad>>
T == Traces[tid]
P == [limit |-> T.limit, search |-> T.search]

TInit == tid = 1 /\ l = 1 /\ bad = <<>> /\ st = Settle(S0, [limit |-> Traces[1].limit, search |-> Traces[1].search])

Step ==
    /\ l <= Len(T.events) /\ bad = <<>>
    /\ LET ev == T.events[l]
           nxt == Settle(OnEvent(st, ev, P), P)
           why == IF nxt.pc = "error" THEN "control_" \o st.pc \o "_got_" \o ev.ev
                  ELSE IF ev.ev = "draw" /\ ~ev.ok THEN "drawable_set_does_not_mirror_working_graph"
                  ELSE IF ev.gver # st.cc THEN "graph_changed_without_an_accepted_swap_or_swap_not_applied"
                  ELSE IF ~BoundsF(nxt, P) THEN "counter_out_of_bounds"      \* the design invariants, evaluated on the run
                  ELSE ""
       IN /\ st' = nxt
          /\ bad' = IF why = "" THEN bad ELSE <<l, why>>
    /\ l' = l + 1 /\ tid' = tid

FinalWhy ==
    IF bad # <<>> THEN bad[2]
    ELSE IF T.returned /\ st.pc # "returned" THEN "returned_while_model_at_" \o st.pc
    ELSE IF T.returned /\ st.cc # T.limit + 1 THEN "returned_without_limit_plus_one_swaps"
    ELSE IF T.class_props # st.props \/ T.class_acc # st.acc THEN "decorator_counts_differ"
    ELSE IF T.inst_props # st.iprops THEN "instance_view_of_counts_differs"
    ELSE IF T.ratio_len # st.ratio THEN "acceptance_ratio_samples_differ"
    ELSE ""

Finish ==
    /\ IF bad # <<>> THEN TRUE ELSE l > Len(T.events)      \* (a disjunction here would be split into two sub-actions and print twice)
    /\ PrintT("VERDICT " \o ToJson([tid |-> tid, v |-> IF FinalWhy = "" THEN "ok" ELSE "violation:" \o FinalWhy,
                                    at |-> IF bad # <<>> THEN bad[1] ELSE 0, swaps |-> st.cc, discarded |-> st.discarded,
                                    props |-> st.props, pc |-> st.pc]))
    /\ tid' = tid + 1 /\ l' = 1 /\ bad' = <<>>
    /\ st' = IF tid + 1 <= Len(Traces) THEN Settle(S0, [limit |-> Traces[tid + 1].limit, search |-> Traces[tid + 1].search]) ELSE S0

TNext == tid <= Len(Traces) /\ (Step \/ Finish)
TSpec == TInit /\ [][TNext]_tvars
=============================================================================
