-------------------------- MODULE StubMatchingTrace --------------------------
(* JUDGE for C01 and C02: one total verdict per recorded generator execution.
   A record holds the input (jds, sizes, motif configuration), the log of the
   recording build callbacks (motif type, vertices handed in, edges returned,
   in call order), the three returned columns (or the returned network), and
   the joint degree sequence found on the result.  Which clauses are judged
   is selected by IOEnv.PROPERTY (C01 or C02); the recorded data is shared.  *)
EXTENDS Naturals, Sequences, FiniteSets, TLC, Json, IOUtils

Traces == JsonDeserialize(IOEnv.TRACE_FILE)
Which == IOEnv.PROPERTY

VARIABLE tid

RECURSIVE SumSeq(_)
SumSeq(s) == IF s = <<>> THEN 0 ELSE Head(s) + SumSeq(Tail(s))
SetOf(s) == {s[i] : i \in DOMAIN s}

C01Clauses == {"earlier_result_changed_by_a_later_call", "raised", "count", "slots", "range", "callshape", "jds_carried", "input_mutated",
               "net_nodes", "net_jd", "net_edges", "motif_shape"}
C02Clauses == {"raised", "parallel", "pairs", "ids_blocks", "ids_distinct", "names", "edges_are_returned",
               "network_edge_names", "network_edge_ids"}

Failed(t) ==
    LET N == t.N
        calls == t.calls
        ColSum(k) == SumSeq([v \in 1..N |-> t.jds[v][k]])
        CallsOf(m) == {c \in DOMAIN calls : calls[c].m = m}
        Orb(m) == t.motifs[m].orbits
        Offset(m, o) == SumSeq([x \in 1..(o - 1) |-> t.sizes[Orb(m)[x]]])
        OrbitPos(m, o) == (Offset(m, o) + 1)..(Offset(m, o) + t.sizes[Orb(m)[o]])
        WantLen(m) == SumSeq([o \in DOMAIN Orb(m) |-> t.sizes[Orb(m)[o]]])
        shapeOK == \A c \in DOMAIN calls : calls[c].m \in DOMAIN t.motifs /\ Len(calls[c].verts) = WantLen(calls[c].m)
        RECURSIVE StartsFrom(_, _)
        StartsFrom(c, acc) == IF c > Len(calls) THEN <<>> ELSE <<acc>> \o StartsFrom(c + 1, acc + Len(calls[c].ret))
        Starts == StartsFrom(1, 0)
        BlockStart(c) == Starts[c]
        total == SumSeq([c \in DOMAIN calls |-> Len(calls[c].ret)])
        par == Len(t.edge) = Len(t.top) /\ Len(t.top) = Len(t.mid)
        blocksOK == par /\ Len(t.edge) = total
        NameAt(m, i) == IF t.motifs[m].homog THEN t.motifs[m].names[1]
                        ELSE IF i \in DOMAIN t.motifs[m].names THEN t.motifs[m].names[i] ELSE "?"
        UPair(e) == {e[1], e[2]}
        AllRet == UNION {{<<x, y>> : y \in DOMAIN calls[x].ret} : x \in DOMAIN calls}
        OnceOverall(p) == Cardinality({z \in AllRet : UPair(calls[z[1]].ret[z[2]]) = p}) = 1
        \* tables computed once per trace (the network clauses were quadratic in the number of edges per lookup before)
        retPairs == {UPair(calls[z[1]].ret[z[2]]) : z \in AllRet}
        retCount == TLCEval([p \in retPairs |-> Cardinality({z \in AllRet : UPair(calls[z[1]].ret[z[2]]) = p})])
        netAttr == TLCEval([p \in {UPair(t.net_edges[k]) : k \in DOMAIN t.net_edges} |->
                              t.net_attr[CHOOSE k \in DOMAIN t.net_edges : UPair(t.net_edges[k]) = p]])
        clauses == IF Which = "C01" THEN C01Clauses ELSE C02Clauses
        (* C02, fast path: rows in call order, one block per call (what every known implementation produces).  Orientation of
           an undirected edge is not part of the property (C04: "up to edge order and orientation"). *)
        fastBlocks == \A cc \in DOMAIN calls : \A i \in DOMAIN calls[cc].ret :
                          /\ UPair(t.edge[BlockStart(cc) + i]) = UPair(calls[cc].ret[i])
                          /\ t.mid[BlockStart(cc) + i] = t.mid[BlockStart(cc) + 1]
        fastDistinct == \A cc, d \in DOMAIN calls : (cc # d /\ calls[cc].ret # <<>> /\ calls[d].ret # <<>>)
                                                       => t.mid[BlockStart(cc) + 1] # t.mid[BlockStart(d) + 1]
        fastNames == \A cc \in DOMAIN calls : \A i \in DOMAIN calls[cc].ret : t.top[BlockStart(cc) + i] = NameAt(calls[cc].m, i)
        fast == fastBlocks /\ fastDistinct /\ fastNames
        (* general path, only evaluated when the layout is another one: the rows sharing an id, in row order, must be the
           return of one call - as bags, so that any order of the motif instances in the columns is accepted *)
        IdSet == SetOf(t.mid)
        Idx(id) == SelectSeq([k \in 1..Len(t.mid) |-> k], LAMBDA k : t.mid[k] = id)
        GE(id) == LET ix == Idx(id) IN [j \in DOMAIN ix |-> UPair(t.edge[ix[j]])]
        GN(id) == LET ix == Idx(id) IN [j \in DOMAIN ix |-> <<UPair(t.edge[ix[j]]), t.top[ix[j]]>>]
        CE(cc) == [i \in DOMAIN calls[cc].ret |-> UPair(calls[cc].ret[i])]
        CN(cc) == [i \in DOMAIN calls[cc].ret |-> <<UPair(calls[cc].ret[i]), NameAt(calls[cc].m, i)>>]
        ne == {cc \in DOMAIN calls : calls[cc].ret # <<>>}
        bagEdgesOK == \A x \in {CE(cc) : cc \in ne} \cup {GE(id) : id \in IdSet} :
                          Cardinality({cc \in ne : CE(cc) = x}) = Cardinality({id \in IdSet : GE(id) = x})
        bagNamesOK == \A x \in {CN(cc) : cc \in ne} \cup {GN(id) : id \in IdSet} :
                          Cardinality({cc \in ne : CN(cc) = x}) = Cardinality({id \in IdSet : GN(id) = x})
    IN
    IF t.raised # "" THEN {"raised"} ELSE
    {c \in clauses :
       CASE c = "raised" -> FALSE
         [] c = "earlier_result_changed_by_a_later_call" -> t.held_before # t.held_after
         [] c = "callshape" -> ~shapeOK
         [] c = "count" -> shapeOK /\ \E m \in DOMAIN t.motifs : \E o \in DOMAIN Orb(m) :
                              Cardinality(CallsOf(m)) * t.sizes[Orb(m)[o]] # ColSum(Orb(m)[o])
         [] c = "slots" -> shapeOK /\ \E m \in DOMAIN t.motifs : \E o \in DOMAIN Orb(m) : \E v \in 0..(N - 1) :
                              Cardinality({<<cc, p>> \in CallsOf(m) \X OrbitPos(m, o) : calls[cc].verts[p] = v})
                              # t.jds[v + 1][Orb(m)[o]]
         [] c = "range" -> \/ \E cc \in DOMAIN calls : \E p \in DOMAIN calls[cc].verts : calls[cc].verts[p] \notin 0..(N - 1)
                           \/ (t.has_cols /\ \E i \in DOMAIN t.edge : t.pair_ok[i] /\
                                   (t.edge[i][1] \notin 0..(N - 1) \/ t.edge[i][2] \notin 0..(N - 1)))
                           \/ (t.has_net /\ \E i \in DOMAIN t.net_nodes : t.net_nodes[i] \notin 0..(N - 1))
         [] c = "jds_carried" -> ~t.jds_ok \/ t.jds_out # t.jds
         [] c = "input_mutated" -> t.jds_in_after # t.jds
         [] c = "net_nodes" -> t.has_net /\ (SetOf(t.net_nodes) # 0..(N - 1) \/ Len(t.net_nodes) # N)
         [] c = "net_jd" -> t.has_net /\ \E i \in DOMAIN t.net_nodes :
                              t.net_nodes[i] \in 0..(N - 1) /\ t.net_jd[i] # t.jds[t.net_nodes[i] + 1]
         [] c = "net_edges" -> t.has_net /\
                 {UPair(t.net_edges[i]) : i \in DOMAIN t.net_edges}
                 # UNION {{UPair(calls[x].ret[y]) : y \in DOMAIN calls[x].ret} : x \in DOMAIN calls}
         [] c = "motif_shape" -> shapeOK /\ \E cc \in DOMAIN calls :
                 LET mo == t.motifs[calls[cc].m] IN
                 mo.check_shape /\ calls[cc].ret # [i \in DOMAIN mo.shape |->
                                       <<calls[cc].verts[mo.shape[i][1]], calls[cc].verts[mo.shape[i][2]]>>]
            \* network variant: an edge whose pair was produced exactly once carries the name / id of the call that produced it
         [] c = "network_edge_names" -> t.has_net /\ \E cc \in DOMAIN calls : \E i \in DOMAIN calls[cc].ret :
                 LET p == UPair(calls[cc].ret[i]) IN
                 p \in DOMAIN netAttr /\ retCount[p] = 1 /\ netAttr[p][1] # NameAt(calls[cc].m, i)
         [] c = "network_edge_ids" -> t.has_net /\
                 LET idsOf(cc) == {netAttr[UPair(calls[cc].ret[i])][2] :
                                     i \in {j \in DOMAIN calls[cc].ret : UPair(calls[cc].ret[j]) \in DOMAIN netAttr /\ retCount[UPair(calls[cc].ret[j])] = 1}}
                     perCall == TLCEval([cc \in DOMAIN calls |-> idsOf(cc)])
                     allIds == UNION {perCall[cc] : cc \in DOMAIN calls}
                 IN \/ \E cc \in DOMAIN calls : Cardinality(perCall[cc]) > 1                       \* one instance, one id
                    \/ SumSeq([cc \in DOMAIN calls |-> Cardinality(perCall[cc])]) # Cardinality(allIds)   \* distinct instances, distinct ids
         [] c = "parallel" -> t.has_cols /\ ~par
         [] c = "pairs" -> t.has_cols /\ \E i \in DOMAIN t.pair_ok : ~t.pair_ok[i]
         [] c = "edges_are_returned" -> t.has_cols /\ par /\ Len(t.edge) # total
         [] c = "ids_blocks" -> t.has_cols /\ blocksOK /\ ~fast /\ ~bagEdgesOK
         [] c = "ids_distinct" -> t.has_cols /\ blocksOK /\ ~fast /\ Cardinality(IdSet) < Cardinality(ne)
         [] c = "names" -> t.has_cols /\ blocksOK /\ ~fast /\ bagEdgesOK /\ ~bagNamesOK}

Verdict(t) == LET f == Failed(t) IN
              IF f = {} THEN "ok" ELSE "violation:" \o (CHOOSE c \in f : TRUE)

Init == tid = 0
Next == /\ tid < Len(Traces)
        /\ tid' = tid + 1
        /\ PrintT("VERDICT " \o ToJson([tid |-> tid', v |-> Verdict(Traces[tid']), failed |-> Failed(Traces[tid'])]))
Spec == Init /\ [][Next]_tid
=============================================================================
