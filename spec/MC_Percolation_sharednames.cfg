SPECIFICATION Spec
CONSTANT Motifs <- SomeMotifs
CONSTANT SharedNames = TRUE
CONSTANT GridA = 1
CONSTANT GridB = 2
INVARIANT C15_RootInComponent
INVARIANT C15_ComponentIsConnected
INVARIANT C15_TotalProbability
INVARIANT C15_CachePure
CHECK_DEADLOCK FALSE
