SPECIFICATION Spec
CONSTANT Motifs <- SomeMotifs
CONSTANT SharedNames = TRUE
CONSTANT GridA = 1
CONSTANT GridB = 2
CONSTANT StaleEdgeList = FALSE
INVARIANT C15_RootInComponent
INVARIANT C15_ComponentIsConnected
INVARIANT C15_TotalProbability
INVARIANT C15_CachePure
INVARIANT C18_OnlyCurrentEdges
INVARIANT C18_EveryEdgeDecided
CHECK_DEADLOCK FALSE
