----------------------------- MODULE FisherYates -----------------------------
(* C03, refinement of Shuffle: CPython's random.shuffle is
       for i in reversed(range(1, n)): j = randbelow(i + 1); x[i], x[j] = x[j], x[i]
   Each choice sequence (j_{n-1}, .., j_1) with j_i in 0..i is one leaf of the RNG
   tree of weight 1/n!.  TLC explores all of them and checks that the leaves are in
   bijection with the permutations, so 'every leaf equally likely' (what the oracle
   enumerates) is 'every permutation equally likely' (what StubMatching!Shuffle assumes). *)
EXTENDS Naturals, Sequences, FiniteSets, TLC
CONSTANT MaxN
VARIABLES n, x, i, choices
vars == <<n, x, i, choices>>
Init == /\ n \in 1..MaxN /\ x = [k \in 1..n |-> k] /\ i = n - 1 /\ choices = <<>>
Step == /\ i >= 1
        /\ \E j \in 0..i :
              /\ x' = [x EXCEPT ![i + 1] = x[j + 1], ![j + 1] = x[i + 1]]
              /\ choices' = Append(choices, j)
        /\ i' = i - 1 /\ n' = n
Spec == Init /\ [][Step]_vars
Fact(k) == IF k <= 1 THEN 1 ELSE IF k = 2 THEN 2 ELSE IF k = 3 THEN 6 ELSE IF k = 4 THEN 24 ELSE IF k = 5 THEN 120 ELSE 720
IsPerm == {x[k] : k \in 1..n} = 1..n
\* distinct leaves (choice sequences) give distinct arrangements: TLC's state count does the counting,
\* the invariant states the local facts; Bijective is checked through the POSTCONDITION below.
C03_FYPermutes == IsPerm
Leaves == {s \in [1..(MaxN - 1) -> 0..(MaxN - 1)] : \A k \in 1..(MaxN - 1) : s[k] <= MaxN - k}
RECURSIVE Run(_, _, _)
Run(arr, s, k) == IF k > Len(s) THEN arr
                  ELSE LET ii == Len(arr) - k IN
                       Run([arr EXCEPT ![ii + 1] = arr[s[k] + 1], ![s[k] + 1] = arr[ii + 1]], s, k + 1)
C03_FYBijective ==
    /\ Cardinality(Leaves) = Fact(MaxN)
    /\ Cardinality({Run([k \in 1..MaxN |-> k], s, 1) : s \in Leaves}) = Fact(MaxN)
ASSUME C03_FYBijective
=============================================================================
