SPECIFICATION Spec
CONSTANT Nets <- AllNets
CONSTANT PinnedIds = FALSE
CONSTANT MaxSwaps = 3
CONSTRAINT DepthBound
VIEW GraphView
CONSTANT NoLoopCheck = FALSE
INVARIANT C11_EdgeCount
INVARIANT C11_DegPerTopology
INVARIANT C11_NoSelfLoop
INVARIANT C11_VerticesStay
INVARIANT C11_IdsStable
INVARIANT C11_MotifShape
PROPERTY C12_OnlyAllowed
PROPERTY C12_RatioIsWeightRatio
CHECK_DEADLOCK FALSE
