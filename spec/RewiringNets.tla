---------------------------- MODULE RewiringNets ----------------------------
(* networks as JSON records (shared by the MC family file and the recorded traces):
   V, jd (aligned with V), tops, target[i] = rows {a, b, w} for topology tops[i], g0 = [[a, b, top, mid], ..] *)
EXTENDS Rewiring, Json
SetOf(s) == {s[i] : i \in DOMAIN s}
Idx(s, x) == CHOOSE i \in DOMAIN s : s[i] = x
(* TLCEval forces TLC to build the function once; an unevaluated [x \in S |-> e] is re-evaluated at every application *)
GOf(es) == TLCEval([e \in {{es[i][1], es[i][2]} : i \in DOMAIN es} |->
              LET i == CHOOSE j \in DOMAIN es : {es[j][1], es[j][2]} = e IN [top |-> es[i][3], mid |-> es[i][4]]])
NetOf(t) == [V |-> SetOf(t.V),
             jd |-> TLCEval([v \in SetOf(t.V) |-> t.jd[Idx(t.V, v)]]),
             tops |-> t.tops,
             target |-> TLCEval([nm \in SetOf(t.tops) |->
                            LET rows == t.target[Idx(t.tops, nm)] IN
                            TLCEval([k \in {<<rows[i].a, rows[i].b>> : i \in DOMAIN rows} |->
                                rows[CHOOSE i \in DOMAIN rows : <<rows[i].a, rows[i].b>> = k].w])]),
             g |-> GOf(t.g0)]

FamilyNets == LET F == JsonDeserialize("rewiring_nets.json") IN {NetOf(F[i]) : i \in DOMAIN F}
=============================================================================
