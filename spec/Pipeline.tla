------------------------------ MODULE Pipeline ------------------------------
(* Growth beyond the listed properties: the composition
       sample -> generate (clique motifs) -> convert to a network -> read distributions back
   as one state machine with cross-module invariants.  Each stage is specified by the
   POSTCONDITION the corresponding module guarantees (C05, C01/C02, C04), so the
   invariants below are what a user of the whole pipeline may rely on:
     PI_AllVerticesPresent   the network has exactly the vertices 0..N-1, annotated with jds
     PI_JddOfNetwork         the network's empirical joint degree distribution is the histogram of jds
     PI_CleanDegrees         if no motif repeats a vertex and no pair lies in two motifs, every vertex has
                             (size_k - 1) * jds[v][k] edges of topology k and topology k has (#motifs_k) * C(size_k, 2) edges
     PI_EdgesComeFromMotifs  every edge of the network is a pair of some motif and carries that motif's topology and id
                             (for pairs produced once)                                                        *)
EXTENDS Naturals, Sequences, FiniteSets, TLC

CONSTANTS N, Sizes, MaxDeg, StubCap

VARIABLES stage, jds, motifs, net, hist
vars == <<stage, jds, motifs, net, hist>>

K == Len(Sizes)
V == 0..(N - 1)
RECURSIVE SumSeq(_)
SumSeq(s) == IF s = <<>> THEN 0 ELSE Head(s) + SumSeq(Tail(s))
ColSum(j, k) == SumSeq([v \in 1..N |-> j[v][k]])
Count(s, x) == Cardinality({i \in DOMAIN s : s[i] = x})

(* stage 1: any handshake-consistent joint degree sequence (what C05 guarantees of a sample) *)
Init == /\ stage = "sampled"
        /\ jds \in [1..N -> [1..K -> 0..MaxDeg]]
        /\ \A k \in 1..K : ColSum(jds, k) % Sizes[k] = 0 /\ ColSum(jds, k) <= StubCap
        /\ motifs = <<>> /\ net = <<>> /\ hist = <<>>

(* stage 2: any grouping of the stubs into motifs of the right size (what C01 guarantees of every generator):
   chosen as a sequence of vertex tuples per topology whose slot multiset is the stub multiset *)
Groupings(k) ==
    LET cnt == ColSum(jds, k) \div Sizes[k] IN
    {g \in [1..cnt -> [1..Sizes[k] -> V]] :
        \A v \in V : Cardinality({p \in (1..cnt) \X (1..Sizes[k]) : g[p[1]][p[2]] = v}) = jds[v + 1][k]}
Generate == /\ stage = "sampled"
            /\ motifs' \in [1..K -> UNION {{g} : g \in UNION {Groupings(k) : k \in 1..K}}]
            /\ \A k \in 1..K : motifs'[k] \in Groupings(k)
            /\ stage' = "generated" /\ UNCHANGED <<jds, net, hist>>

(* pairs of a clique on the tuple t; a vertex occurring twice in t yields the self-loop {v} *)
PairsOfTuple(t) == {{t[x[1]], t[x[2]]} : x \in {y \in (DOMAIN t) \X (DOMAIN t) : y[1] # y[2]}}
MotifList == LET RECURSIVE flat(_, _)
                 flat(k, acc) == IF k > K THEN acc
                                 ELSE flat(k + 1, acc \o [i \in DOMAIN motifs[k] |-> [top |-> k, verts |-> motifs[k][i]]])
             IN flat(1, <<>>)
(* stage 3: conversion (what C04 guarantees): one vertex per jds entry, an edge for every pair of every motif *)
Convert == /\ stage = "generated"
           /\ LET ml == MotifList
                  pairs == UNION {PairsOfTuple(ml[i].verts) : i \in DOMAIN ml}
              IN net' = [nodes |-> V, jd |-> [v \in V |-> jds[v + 1]], edges |-> pairs,
                         attr |-> [p \in pairs |-> {[top |-> ml[i].top, mid |-> i] : i \in {j \in DOMAIN ml : p \in PairsOfTuple(ml[j].verts)}}]]
           /\ stage' = "network" /\ UNCHANGED <<jds, motifs, hist>>
(* stage 4: the joint degree histogram read back from the vertex annotations *)
ReadBack == /\ stage = "network"
            /\ hist' = [k \in {net.jd[v] : v \in net.nodes} |-> Cardinality({v \in net.nodes : net.jd[v] = k})]
            /\ stage' = "read" /\ UNCHANGED <<jds, motifs, net>>
Next == Generate \/ Convert \/ ReadBack
Spec == Init /\ [][Next]_vars

Clean == LET ml == MotifList IN
         /\ \A i \in DOMAIN ml : \A a, b \in DOMAIN ml[i].verts : a # b => ml[i].verts[a] # ml[i].verts[b]
         /\ \A i, j \in DOMAIN ml : i # j => PairsOfTuple(ml[i].verts) \cap PairsOfTuple(ml[j].verts) = {}
DegTop(v, k) == Cardinality({p \in net.edges : v \in p /\ \E r \in net.attr[p] : r.top = k})

PI_AllVerticesPresent == stage \in {"network", "read"} => (net.nodes = V /\ \A v \in V : net.jd[v] = jds[v + 1])
PI_JddOfNetwork == stage = "read" => \A k \in DOMAIN hist : hist[k] = Count(jds, k)
PI_CleanDegrees == (stage \in {"network", "read"} /\ Clean) =>
                      /\ \A v \in V : \A k \in 1..K : DegTop(v, k) = (Sizes[k] - 1) * jds[v + 1][k]
                      /\ \A k \in 1..K : Cardinality({p \in net.edges : \E r \in net.attr[p] : r.top = k})
                                         = Len(motifs[k]) * ((Sizes[k] * (Sizes[k] - 1)) \div 2)
PI_EdgesComeFromMotifs == stage \in {"network", "read"} =>
                      \A p \in net.edges : \E i \in DOMAIN MotifList : p \in PairsOfTuple(MotifList[i].verts)
=============================================================================
