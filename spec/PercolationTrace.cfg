SPECIFICATION TSpec
CONSTANT Motifs = {}
CONSTANT SharedNames = FALSE
CONSTANT StaleEdgeList = FALSE
CONSTANT GridA = 1
CONSTANT GridB = 2
CHECK_DEADLOCK FALSE
