SPECIFICATION SpecDeviant
CONSTANT U = {1, 2, 3, 4}
INVARIANT C20_Representation
CHECK_DEADLOCK FALSE
