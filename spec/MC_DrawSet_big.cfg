SPECIFICATION Spec
CONSTANT U = {1, 2, 3, 4, 5, 6}
INVARIANT C20_Representation
INVARIANT C20_RefinesSet
INVARIANT C20_DrawIsMember
INVARIANT C20_EveryMemberDrawable
INVARIANT C20_LenIterContains
PROPERTY C20_AbsentRemoveHarmless
PROPERTY C20_AddPresentNoop
PROPERTY C20_FailedCallHarmless
CHECK_DEADLOCK FALSE
