SPECIFICATION Spec
CONSTANT MaxN = 5
INVARIANT C03_FYPermutes
CHECK_DEADLOCK FALSE
