SPECIFICATION CSpec
CONSTANT MaxT = 3
CONSTANT MaxA = 2
CONSTANT MaxF = 1
CONSTANT MaxK = 5
CONSTANT PinnedReset = FALSE
CONSTANT PinnedAscending = FALSE
CONSTANT AccumulatingCreate = FALSE
CHECK_DEADLOCK FALSE
