SPECIFICATION Spec
CONSTANT Covers <- AllCovers
CONSTANT Cap = 6
VIEW View
INVARIANT C17_AnyFixedPointIsZero
CHECK_DEADLOCK FALSE
