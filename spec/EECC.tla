-------------------------------- MODULE EECC --------------------------------
(* gcmpy/covers/eecc.py: edge-disjoint edge clique cover heuristic (C09).
   State as in get_EECC: the working graph G, the cover EC built so far (a
   sequence, so that a clique or edge entered twice is visible), and the pool of
   candidate cliques with the scores computed by the LAST compute_scores call
   (scores are not refreshed after the score-0 cliques' edges are removed - the
   model keeps that, because the tie-break set depends on it).                 *)
EXTENDS Naturals, Sequences, FiniteSets, TLC

CONSTANTS MaxV, M0s, PinnedDedup, MaxUses

VARIABLES n, E0, m0, G, EC, pool, phase, uses
vars == <<n, E0, m0, G, EC, pool, phase, uses>>

Pairs(S) == {{a, b} : a \in S, b \in S} \ {{a} : a \in S}
EdgesOf(c) == Pairs(c)
VertsOf(g) == UNION g
IsClique(g, c) == Pairs(c) \subseteq g
(* all cliques with >= 2 vertices, grown level by level from the edges (linear in the number of cliques) *)
RECURSIVE Grow(_, _, _)
Grow(g, level, acc) ==
    IF level = {} THEN acc
    ELSE LET vs == VertsOf(g)
             nxt == {x[1] \cup {x[2]} : x \in {y \in level \X vs : \A u \in y[1] : y[2] > u /\ {u, y[2]} \in g}}
         IN Grow(g, nxt, acc \cup nxt)
Cliques(g) == Grow(g, g, g)
MaxCliques(g) == LET cl == Cliques(g) IN {c \in cl : ~\E d \in cl : c # d /\ c \subseteq d}
SubsetsOfSize(c, k) == {s \in SUBSET c : Cardinality(s) = k}
(* limited_maximal_cliques: cliques larger than m0 are replaced by their m0-subsets; de-duplicated as SETS *)
LimitedOf(mc, m) == {c \in mc : Cardinality(c) <= m}
                    \cup UNION {SubsetsOfSize(c, m) : c \in {d \in mc : Cardinality(d) > m}}
Limited(g, m) == LimitedOf(MaxCliques(g), m)
(* pinned: the same sub-clique reached from two larger maximal cliques survives twice (tuples compared unsorted);
   MultOf(mc, m, c) is the number of copies of c in the list *)
MultOf(mc, m, c) == IF PinnedDedup /\ ~(c \in mc)
                    THEN LET k == Cardinality({d \in mc : Cardinality(d) > m /\ c \subseteq d}) IN IF k > 2 THEN 2 ELSE k
                    ELSE 1
Mult(g, m, c) == MultOf(MaxCliques(g), m, c)
(* score = <<number of edges of c lying in another list entry, number of edges of c>>; 2-cliques score 0.
   L is the limited list and mc the maximal cliques it was derived from (computed once per graph) *)
ScoreOf(mc, L, m, c) ==
    IF Cardinality(c) <= 2 THEN <<0, 1>>
    ELSE <<Cardinality({e \in EdgesOf(c) : \/ \E d \in L : d # c /\ e \subseteq d
                                          \/ MultOf(mc, m, c) > 1}), Cardinality(EdgesOf(c))>>
Score(g, m, c) == LET mc == MaxCliques(g) IN ScoreOf(mc, LimitedOf(mc, m), m, c)
Less(a, b) == a[1] * b[2] < b[1] * a[2]
Zero(g, m) == LET mc == MaxCliques(g)
                  L == LimitedOf(mc, m)
              IN {c \in L : ScoreOf(mc, L, m, c)[1] = 0}
RECURSIVE SeqOfSet(_)
SeqOfSet(S) == IF S = {} THEN <<>> ELSE LET x == CHOOSE y \in S : TRUE IN <<x>> \o SeqOfSet(S \ {x})
RECURSIVE Copies(_, _)
Copies(x, k) == IF k = 0 THEN <<>> ELSE <<x>> \o Copies(x, k - 1)
RECURSIVE ZeroSeq(_, _, _)
ZeroSeq(g, m, S) == IF S = {} THEN <<>> ELSE LET x == CHOOSE y \in S : TRUE IN
                                                Copies(x, Mult(g, m, x)) \o ZeroSeq(g, m, S \ {x})
(* pool entries carry the score computed on the graph they were listed on *)
PoolOf(g, m) == LET mc == MaxCliques(g)
                    L == LimitedOf(mc, m)
                IN {x \in {[c |-> c, s |-> ScoreOf(mc, L, m, c)] : c \in L} : x.s[1] # 0}
Candidates(p) ==
    LET mins == {x \in p : ~\E y \in p : Less(y.s, x.s)}
        big == {x \in mins : ~\E y \in mins : Cardinality(y.c) > Cardinality(x.c)}
    IN {x.c : x \in big}

Graphs(k) == {g \in SUBSET Pairs(1..k) : VertsOf(g) = 1..k}      \* no isolated vertices
Init == /\ n \in 2..MaxV /\ E0 \in Graphs(n) /\ m0 \in M0s
        /\ G = E0 /\ EC = <<>> /\ pool = {} /\ phase = "start" /\ uses = 1

Start == /\ phase = "start"
         /\ EC' = ZeroSeq(E0, m0, Zero(E0, m0))
         /\ G' = E0 \ UNION {EdgesOf(c) : c \in Zero(E0, m0)}
         /\ pool' = PoolOf(E0, m0)
         /\ phase' = "loop"
         /\ UNCHANGED <<n, E0, m0, uses>>
(* one iteration of `while self.has_edges()`: random.choice among the largest minimum-score cliques *)
Pick == /\ phase = "loop" /\ G # {}
        /\ \E c \in Candidates(pool) :
              LET g1 == G \ EdgesOf(c) IN
              /\ EC' = Append(EC, c) \o ZeroSeq(g1, m0, Zero(g1, m0))
              /\ G' = g1 \ UNION {EdgesOf(z) : z \in Zero(g1, m0)}
              /\ pool' = PoolOf(g1, m0)
        /\ UNCHANGED <<n, E0, m0, phase, uses>>
Finish == /\ phase = "loop" /\ G = {} /\ phase' = "done" /\ UNCHANGED <<n, E0, m0, G, EC, pool, uses>>
(* history: the same EECC object gets its edges back, another size bound, and is asked again *)
CoverAgain == /\ phase = "done" /\ uses < MaxUses
              /\ m0' \in M0s \ {m0} /\ G' = E0 /\ EC' = <<>> /\ pool' = {} /\ phase' = "start" /\ uses' = uses + 1
              /\ UNCHANGED <<n, E0>>
Next == Start \/ Pick \/ Finish \/ CoverAgain
Spec == Init /\ [][Next]_vars
FairSpec == Spec /\ WF_vars(Next)

(* -------------------------------- properties -------------------------------- *)
Members == {EC[i] : i \in DOMAIN EC}
C09_Cliques == \A i \in DOMAIN EC : IsClique(E0, EC[i]) /\ Cardinality(EC[i]) >= 2 /\ Cardinality(EC[i]) <= m0
C09_Disjoint == \A i, j \in DOMAIN EC : i # j => EdgesOf(EC[i]) \cap EdgesOf(EC[j]) = {}
C09_WorkingGraph == phase # "start" => G = E0 \ UNION {EdgesOf(c) : c \in Members}
C09_Cover == phase = "done" => UNION {EdgesOf(c) : c \in Members} = E0
C09_NoEdgesLeft == phase = "done" => G = {}
C09_IsolatedIntact == phase # "start" =>
    \A c \in MaxCliques(E0) :
        (Cardinality(c) <= m0 /\ ~\E d \in MaxCliques(E0) : d # c /\ EdgesOf(c) \cap EdgesOf(d) # {}) => c \in Members
C09_NeverStuck == (phase = "loop" /\ G # {}) => Candidates(pool) # {}      \* min([]) would raise in the code
C09_Terminates == <>(phase = "done")
=============================================================================
