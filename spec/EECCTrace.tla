------------------------------ MODULE EECCTrace ------------------------------
(* JUDGE for C09: input graph, m0, returned cover, has_edges() afterwards; and, as the
   implementation-shaped layer, the state at every compute_scores call (remaining
   edges, cover so far) with the arity of every random.choice: each picked clique must
   be one of the spec's Candidates and the tie set must have the recorded size.      *)
EXTENDS EECC, Json, IOUtils
Traces == JsonDeserialize(IOEnv.TRACE_FILE)
VARIABLE tid
SetOf(s) == {s[i] : i \in DOMAIN s}
EdgeSet(es) == {{es[i][1], es[i][2]} : i \in DOMAIN es}

Failed(t) ==
    LET e0 == EdgeSet(t.edges)
        cov == t.cover
        mem(i) == SetOf(cov[i])
        edgesOfMember(i) == Pairs(mem(i))
        mcs == MaxCliques(e0)                  \* evaluated at most once per trace (lazy LET)
        members == {mem(i) : i \in DOMAIN cov}
        covEdges == UNION {edgesOfMember(i) : i \in DOMAIN cov}          \* computed once per trace
        RECURSIVE SumC2(_)
        SumC2(i) == IF i > Len(cov) THEN 0 ELSE (Cardinality(mem(i)) * (Cardinality(mem(i)) - 1)) \div 2 + SumC2(i + 1)
    IN
    IF t.timeout THEN {"did_not_terminate"} ELSE
    IF t.raised # "" THEN {"raised"} ELSE
    {c \in {"member_not_a_vertex_set", "member_not_a_clique_of_the_input", "member_size_out_of_bounds", "edge_covered_twice",
            "edge_uncovered", "working_graph_has_edges_left", "isolated_maximal_clique_not_intact",
            "returned_cover_changed_by_a_later_cover"} :
       CASE c = "member_not_a_vertex_set" -> \E i \in DOMAIN cov : Cardinality(mem(i)) # Len(cov[i])
         [] c = "member_not_a_clique_of_the_input" -> ~(covEdges \subseteq e0)
         [] c = "member_size_out_of_bounds" -> \E i \in DOMAIN cov : Cardinality(mem(i)) < 2 \/ Cardinality(mem(i)) > t.m0
            \* members are pairwise edge-disjoint iff their edge counts add up to the size of the union (no member repeated either)
         [] c = "edge_covered_twice" -> SumC2(1) # Cardinality(covEdges)
         [] c = "edge_uncovered" -> ~(e0 \subseteq covEdges)
         [] c = "returned_cover_changed_by_a_later_cover" -> t.cover_again # t.cover
         [] c = "working_graph_has_edges_left" -> t.has_edges_after
         [] c = "isolated_maximal_clique_not_intact" ->
               t.check_isolated /\ \E mc \in mcs :
                   /\ Cardinality(mc) <= t.m0
                   /\ mc \notin members
                   /\ ~\E d \in mcs : d # mc /\ Cardinality(mc \cap d) >= 2}

(* implementation-shaped layer: step i>1 enters compute_scores with EC ending in the clique just picked;
   the pool it was picked from was scored on the graph seen at step i-1 *)
Drift(t) ==
    IF ~t.steps_known \/ t.raised # "" \/ t.timeout THEN {} ELSE
    {i \in 2..Len(t.steps) :
        LET prev == EdgeSet(t.steps[i - 1].edges)
            pick == SetOf(t.steps[i].ec[Len(t.steps[i].ec)])
            cand == Candidates(PoolOf(prev, t.m0))
        IN ~(pick \in cand /\ (i - 1 \in DOMAIN t.arities => t.arities[i - 1] = Cardinality(cand)))}

VerdictOf(f, d) == IF f # {} THEN "violation:" \o (CHOOSE c \in f : TRUE)
                   ELSE IF d # {} THEN "drift:pick_not_in_spec_candidates" ELSE "ok"
TInit == tid = 0 /\ n = 0 /\ E0 = {} /\ m0 = 0 /\ G = {} /\ EC = <<>> /\ pool = {} /\ phase = "judge" /\ uses = 0
TNext == /\ tid < Len(Traces) /\ tid' = tid + 1
         /\ LET f == Failed(Traces[tid'])
                d == Drift(Traces[tid'])
            IN PrintT("VERDICT " \o ToJson([tid |-> tid', v |-> VerdictOf(f, d), failed |-> f, drift |-> d]))
         /\ UNCHANGED vars
TSpec == TInit /\ [][TNext]_<<vars, tid>>
=============================================================================
