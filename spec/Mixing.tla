------------------------------- MODULE Mixing -------------------------------
(* gcmpy/tools: mixing-matrix extraction (C13) and the degree-distribution algebra (C14).

   C13: the extractor object keeps a per-topology edge counter as state; GetEjks
   is one action per call.  Matrices are integer tables of edge-END counts over the
   denominator 2*E_t (a self-paired class counts both ends of an edge).
   C14: distributions are integer weights; intermediate reals are exact fractions
   <<num, den>> (kept reduced).  One action per step of the inversion routine
   (invert each topology, rescale on a common key, merge, renormalise).          *)
EXTENDS RewiringNets, Integers

CONSTANTS MixNets, Dists, NameLists, AccumulateCounter, HardCodedReference

VARIABLES mode, nt, numEdges, calls, out, P, names, obs, merged, phase
mvars == <<mode, nt, numEdges, calls, out, P, names, obs, merged, phase>>

(* ------------------------------- fractions ------------------------------- *)
RECURSIVE GCD(_, _)
GCD(a, b) == IF b = 0 THEN a ELSE GCD(b, a % b)
Red(f) == LET g == GCD(f[1], f[2]) IN IF g = 0 THEN <<0, 1>> ELSE <<f[1] \div g, f[2] \div g>>
FMul(f, h) == Red(<<f[1] * h[1], f[2] * h[2]>>)
FDiv(f, h) == Red(<<f[1] * h[2], f[2] * h[1]>>)
FAdd(f, h) == Red(<<f[1] * h[2] + h[1] * f[2], f[2] * h[2]>>)
FSum(S, f(_)) == LET RECURSIVE go(_)
                     go(R) == IF R = {} THEN <<0, 1>> ELSE LET x == CHOOSE y \in R : TRUE IN FAdd(f(x), go(R \ {x}))
                 IN go(S)
ISum(S, f(_)) == LET RECURSIVE go(_)
                     go(R) == IF R = {} THEN 0 ELSE LET x == CHOOSE y \in R : TRUE IN f(x) + go(R \ {x})
                 IN go(S)

(* ---------------------------------- C13 ---------------------------------- *)
EdgesOfTop(g, t) == {e \in DOMAIN g : g[e].top = t}
OrderedEnds(g, t) == UNION {{<<Min2(e), Other(e, Min2(e))>>, <<Other(e, Min2(e)), Min2(e)>>} : e \in EdgesOfTop(g, t)}
EndsCount(n, t, a, b) == Cardinality({p \in OrderedEnds(n.g, t) : Key(n, p[1], p[2], t) = <<a, b>>})
KeyPairs(n, t) == {Key(n, p[1], p[2], t) : p \in OrderedEnds(n.g, t)}
(* the matrix the extractor returns when it divides by `div` instead of the true edge count *)
Matrix(n, t, div) == [k \in KeyPairs(n, t) |-> <<EndsCount(n, t, k[1], k[2]), 2 * div>>]
TrueE(n, t) == Cardinality(EdgesOfTop(n.g, t))

InitC13 == /\ mode = "C13" /\ nt \in MixNets /\ numEdges = [t \in {} |-> 0] /\ calls = 0 /\ out = <<>>
           /\ P = <<>> /\ names = <<>> /\ obs = <<>> /\ merged = <<>> /\ phase = "idle"
GetEjks ==
    /\ mode = "C13" /\ calls < 3
    /\ LET tops == {nt.tops[i] : i \in DOMAIN nt.tops}
           cnt == [t \in tops |-> (IF AccumulateCounter /\ t \in DOMAIN numEdges THEN numEdges[t] ELSE 0) + TrueE(nt, t)]
       IN /\ numEdges' = cnt
          /\ out' = [t \in {x \in tops : TrueE(nt, x) > 0} |-> Matrix(nt, t, cnt[t])]
    /\ calls' = calls + 1
    /\ UNCHANGED <<mode, nt, P, names, obs, merged, phase>>

FEq(f, h) == f[1] * h[2] = h[1] * f[2]
C13_Exact == (mode = "C13" /\ calls > 0) =>
                \A t \in DOMAIN out : \A k \in DOMAIN out[t] : FEq(out[t][k], <<EndsCount(nt, t, k[1], k[2]), 2 * TrueE(nt, t)>>)
C13_Symmetric == (mode = "C13" /\ calls > 0) =>
                \A t \in DOMAIN out : \A k \in DOMAIN out[t] : <<k[2], k[1]>> \in DOMAIN out[t] /\ FEq(out[t][k], out[t][<<k[2], k[1]>>])
C13_SumsToOne == (mode = "C13" /\ calls > 0) =>
                \A t \in DOMAIN out : FEq(FSum(DOMAIN out[t], LAMBDA k : out[t][k]), <<1, 1>>)
C13_Repeatable == [][(mode = "C13" /\ calls > 0 /\ calls' > calls) => out' = out]_mvars

(* ---------------------------------- C14 ---------------------------------- *)
T == Len(names)
Dec(k, i) == [k EXCEPT ![i] = @ - 1]
Inc(k, i) == [k EXCEPT ![i] = @ + 1]
MeanNum(p, i) == ISum(DOMAIN p, LAMBDA k : k[i] * p[k])          \* <k_i> = MeanNum / W
ExcessOf(p, i) == [k \in {Dec(x, i) : x \in {y \in DOMAIN p : y[i] > 0}} |-> <<(k[i] + 1) * p[Inc(k, i)], MeanNum(p, i)>>]
InvertSingle(q, i) ==
    LET bottom == FSum(DOMAIN q, LAMBDA k : FDiv(q[k], <<k[i] + 1, 1>>)) IN
    [k \in {Inc(x, i) : x \in DOMAIN q} |-> FDiv(FDiv(q[Dec(k, i)], <<k[i], 1>>), bottom)]

InitC14 == /\ mode = "C14" /\ P \in Dists /\ names \in NameLists /\ Len(names) = Len(CHOOSE k \in DOMAIN P : TRUE)
           /\ \E k \in DOMAIN P : \A i \in DOMAIN k : k[i] > 0          \* some joint degree positive in every topology
           /\ obs = <<>> /\ merged = <<>> /\ phase = "start"
           /\ nt = <<>> /\ numEdges = <<>> /\ calls = 0 /\ out = <<>>
Invert == /\ mode = "C14" /\ phase = "start"
          /\ obs' = [i \in 1..T |-> InvertSingle(ExcessOf(P, i), i)]
          /\ phase' = "inverted" /\ UNCHANGED <<mode, nt, numEdges, calls, out, P, names, merged>>
Common == {k \in DOMAIN obs[1] : \A i \in 1..T : k \in DOMAIN obs[i]}
RefIndex == IF HardCodedReference
            THEN (IF \E i \in 1..T : names[i] = "2-clique" THEN CHOOSE i \in 1..T : names[i] = "2-clique" ELSE 0)
            ELSE 1
Scale == /\ mode = "C14" /\ phase = "inverted" /\ Common # {} /\ RefIndex # 0
         /\ \E ck \in Common :
               obs' = [i \in 1..T |-> IF i = RefIndex THEN obs[i]
                                      ELSE [k \in DOMAIN obs[i] |-> FMul(obs[i][k], FDiv(obs[RefIndex][ck], obs[i][ck]))]]
         /\ phase' = "scaled" /\ UNCHANGED <<mode, nt, numEdges, calls, out, P, names, merged>>
(* P.update(obs[i]) in topology order: later topologies overwrite *)
MergeAll == /\ mode = "C14" /\ phase = "scaled"
            /\ LET keys == UNION {DOMAIN obs[i] : i \in 1..T}
                   lastOf(k) == CHOOSE i \in 1..T : k \in DOMAIN obs[i] /\ \A j \in 1..T : (j > i => k \notin DOMAIN obs[j])
                   raw == [k \in keys |-> obs[lastOf(k)][k]]
                   total == FSum(keys, LAMBDA k : raw[k])
               IN merged' = [k \in keys |-> FDiv(raw[k], total)]
            /\ phase' = "merged" /\ UNCHANGED <<mode, nt, numEdges, calls, out, P, names, obs>>

NonZero(p) == {k \in DOMAIN p : p[k] > 0 /\ \E i \in DOMAIN k : k[i] > 0}
C14_ExcessSumsToOne == mode = "C14" => \A i \in 1..T : MeanNum(P, i) > 0 =>
                           FEq(FSum(DOMAIN ExcessOf(P, i), LAMBDA k : ExcessOf(P, i)[k]), <<1, 1>>)
C14_InverseIsIdentity == (mode = "C14" /\ phase = "merged") =>
    LET W == ISum(NonZero(P), LAMBDA k : P[k]) IN
    /\ {k \in DOMAIN merged : merged[k][1] # 0} = NonZero(P)
    /\ \A k \in NonZero(P) : FEq(merged[k], <<P[k], W>>)
C14_InversionDefined == (mode = "C14" /\ phase = "inverted") => (Common # {} /\ RefIndex # 0)

MixInit == InitC13 \/ InitC14
MixNext == GetEjks \/ Invert \/ Scale \/ MergeAll

(* the variables of the extended Rewiring module are unused here *)
MInit == MixInit /\ net = <<>> /\ G = <<>> /\ swaps = 0
MNext == MixNext /\ UNCHANGED vars
MSpec == MInit /\ [][MNext]_<<mvars, vars>>
=============================================================================
