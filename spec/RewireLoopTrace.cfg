SPECIFICATION TSpec
CONSTANTS
  Limit = 0
  SearchLimit = 0
  Tops = {}
  Cap = 1000000
  DiscardLastTry = TRUE
  InstanceCounters = FALSE
CHECK_DEADLOCK FALSE
