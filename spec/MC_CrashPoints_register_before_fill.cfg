SPECIFICATION Spec
CONSTANT Steps = 3
CONSTANT MaxCalls = 3
CONSTANT Variant = "register_before_fill"
INVARIANT CP_CompleteCallEqualsFresh
PROPERTY CP_AbortChangesNoResult
CHECK_DEADLOCK FALSE
