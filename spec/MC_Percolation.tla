--------------------------- MODULE MC_Percolation ---------------------------
EXTENDS Percolation
Mo(nm, vs, es, r) == [name |-> nm, V |-> vs, E |-> es, root |-> r]
K(n) == {{a, b} : a \in 1..n, b \in 1..n} \ {{a} : a \in 1..n}
Cyc(n) == {{i, (i % n) + 1} : i \in 1..n}
Diamond == {{1, 2}, {2, 3}, {3, 4}, {1, 4}, {1, 3}}
SomeMotifs == {Mo("k3", 1..3, K(3), 1), Mo("k4", 1..4, K(4), 2), Mo("c4", 1..4, Cyc(4), 1), Mo("c5", 1..5, Cyc(5), 3),
               Mo("diamond-hub", 1..4, Diamond, 1), Mo("diamond-rim", 1..4, Diamond, 2), Mo("path", 1..3, {{1, 2}, {2, 3}}, 2),
               Mo("k5", 1..5, K(5), 1),
               Mo("c4-crossed", 1..4, {{1, 3}, {3, 2}, {2, 4}, {4, 1}}, 1), Mo("path-moved", 1..3, {{1, 2}, {1, 3}}, 2)}
=============================================================================
