SPECIFICATION TSpec
CONSTANT Covers = {}
CONSTANT Cap = 0
CHECK_DEADLOCK FALSE
