SPECIFICATION Spec
CONSTANT MaxT = 2
CONSTANT MaxA = 2
CONSTANT MaxF = 1
CONSTANT MaxK = 4
CONSTANT PinnedReset = FALSE
CONSTANT PinnedAscending = FALSE
CONSTANT AccumulatingCreate = FALSE
CONSTANT RejectLeaks <- Yes
INVARIANT C07_MassPerK
INVARIANT C07_WithinK
INVARIANT C07_DeltaShape
INVARIANT C07_Support
INVARIANT C08_ColumnsAreOccurringSizes
INVARIANT C08_DeleteNeverStuck
INVARIANT C06_Law
PROPERTY C07_Accumulates
PROPERTY C06_Idempotent
CHECK_DEADLOCK FALSE
