SPECIFICATION Spec
CONSTANT MaxN = 2
CONSTANT KeySpace <- KS
CONSTANT MaxKeys = 2
CONSTANT MaxW = 2
CONSTANT SizeChoices = {1, 2, 3}
CONSTANT SubtractDeviant = TRUE
INVARIANT C05_Length
INVARIANT C05_Divisible
INVARIANT C05_Fewest
INVARIANT C05_NeverRemoves
INVARIANT C05_Support
PROPERTY C05_OnlyAdditions
CONSTRAINT RunBound
CHECK_DEADLOCK FALSE
