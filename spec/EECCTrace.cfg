SPECIFICATION TSpec
CONSTANT MaxV = 0
CONSTANT M0s = {}
CONSTANT PinnedDedup = FALSE
CHECK_DEADLOCK FALSE
