SPECIFICATION TSpec
CONSTANT MaxV = 0
CONSTANT M0s = {}
CONSTANT MaxUses = 1
CONSTANT PinnedDedup = FALSE
CHECK_DEADLOCK FALSE
