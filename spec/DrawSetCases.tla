---------------------------- MODULE DrawSetCases ----------------------------
(* CASES role for C20: behaviours of the DrawSet model written out as op
   sequences for replay into the real class (spec -> code).                 *)
EXTENDS DrawSet, Json, TLC, IOUtils
VARIABLE hist
D == atoi(IOEnv.CASE_DEPTH)

CInit == Init /\ hist = <<>>
Rec(op, arg) == hist' = Append(hist, [op |-> op, arg |-> arg])
CNext == \/ \E e \in U : \/ Add(e) /\ Rec("add", e)
                         \/ Remove(e) /\ Rec("remove", e)
                         \/ RemoveAbsent(e) /\ Rec("remove", e)
         \/ \E i \in 1..Len(edges) : Draw(i) /\ Rec("draw", i - 1)
         \/ Observe /\ Rec("observe", 0)
         \/ AddUnhashable /\ Rec("addbad", 1)
CSpec == CInit /\ [][CNext]_<<vars, hist>>
Bound == Len(hist) <= D
Emit == (Len(hist) = D) => PrintT("CASE " \o ToJson(hist))
=============================================================================
